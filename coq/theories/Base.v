(* Base.v — identifiers, association-list maps and elementary lemmas shared by all models.
   Stdlib only.  Identifiers are N (0 is the empty string); the harness keeps the bijection to
   the real strings.  Amounts and times are Z (big.Int / UnixNano). *)
From Coq Require Export List ZArith NArith Lia Bool.
Export ListNotations.
Open Scope Z_scope.

Definition id := N.
Definition amap (V : Type) := list (N * V).

Section AMap.
  Context {V : Type}.

  Fixpoint aget (k : N) (m : amap V) : option V :=
    match m with
    | [] => None
    | (k', v) :: m' => if N.eqb k k' then Some v else aget k m'
    end.

  (* update in place, append when absent: never creates a second binding for a key *)
  Fixpoint aset (k : N) (v : V) (m : amap V) : amap V :=
    match m with
    | [] => [(k, v)]
    | (k', v') :: m' => if N.eqb k k' then (k, v) :: m' else (k', v') :: aset k v m'
    end.

  Fixpoint adel (k : N) (m : amap V) : amap V :=
    match m with
    | [] => []
    | (k', v') :: m' => if N.eqb k k' then adel k m' else (k', v') :: adel k m'
    end.

  Definition akeys (m : amap V) : list N := map fst m.
  Definition amem (k : N) (m : amap V) : bool :=
    match aget k m with Some _ => true | None => false end.

  Lemma aget_aset_same k v m : aget k (aset k v m) = Some v.
  Proof.
    induction m as [|[k' v'] m IH]; cbn; [now rewrite N.eqb_refl|].
    destruct (N.eqb k k') eqn:E; cbn; rewrite ?N.eqb_refl, ?E; auto.
  Qed.

  Lemma aget_aset_other k k' v m : k <> k' -> aget k' (aset k v m) = aget k' m.
  Proof.
    intros Hne. induction m as [|[k2 v2] m IH]; cbn.
    - destruct (N.eqb k' k) eqn:E; [apply N.eqb_eq in E; congruence|reflexivity].
    - destruct (N.eqb k k2) eqn:E; cbn.
      + apply N.eqb_eq in E; subst k2.
        destruct (N.eqb k' k) eqn:E2; [apply N.eqb_eq in E2; congruence|reflexivity].
      + destruct (N.eqb k' k2); auto.
  Qed.

  Lemma aget_aset k k' v m :
    aget k' (aset k v m) = if N.eqb k' k then Some v else aget k' m.
  Proof.
    destruct (N.eqb k' k) eqn:E.
    - apply N.eqb_eq in E; subst; apply aget_aset_same.
    - apply aget_aset_other. intro; subst. now rewrite N.eqb_refl in E.
  Qed.

  Lemma aget_adel_same k m : aget k (adel k m) = None.
  Proof.
    induction m as [|[k' v'] m IH]; cbn; auto.
    destruct (N.eqb k k') eqn:E; cbn; rewrite ?E; auto.
  Qed.

  Lemma aget_adel_other k k' m : k <> k' -> aget k' (adel k m) = aget k' m.
  Proof.
    intros Hne. induction m as [|[k2 v2] m IH]; cbn; auto.
    destruct (N.eqb k k2) eqn:E; cbn.
    - apply N.eqb_eq in E; subst k2.
      destruct (N.eqb k' k) eqn:E2; [apply N.eqb_eq in E2; congruence|auto].
    - destruct (N.eqb k' k2); auto.
  Qed.

  Lemma aget_adel k k' m :
    aget k' (adel k m) = if N.eqb k' k then None else aget k' m.
  Proof.
    destruct (N.eqb k' k) eqn:E.
    - apply N.eqb_eq in E; subst; apply aget_adel_same.
    - apply aget_adel_other. intro; subst. now rewrite N.eqb_refl in E.
  Qed.

  Lemma aget_in k v m : aget k m = Some v -> In (k, v) m.
  Proof.
    induction m as [|[k' v'] m IH]; cbn; [discriminate|].
    destruct (N.eqb k k') eqn:E.
    - apply N.eqb_eq in E; subst. intros [= ->]. now left.
    - intros H. right. auto.
  Qed.

  Lemma aget_none_notin k m : aget k m = None -> ~ In k (akeys m).
  Proof.
    induction m as [|[k' v'] m IH]; cbn; [tauto|].
    destruct (N.eqb k k') eqn:E; [discriminate|].
    intros H [Heq|Hin]; [subst; now rewrite N.eqb_refl in E|]. now apply IH.
  Qed.

  Lemma in_keys_aget k m : In k (akeys m) -> exists v, aget k m = Some v.
  Proof.
    induction m as [|[k' v'] m IH]; cbn; [tauto|].
    intros [Heq|Hin].
    - subst. rewrite N.eqb_refl. eauto.
    - destruct (N.eqb k k'); eauto.
  Qed.

  Lemma akeys_aset_nodup k v m : NoDup (akeys m) -> NoDup (akeys (aset k v m)).
  Proof.
    induction m as [|[k' v'] m IH]; cbn; intros H.
    - constructor; [tauto|constructor].
    - inversion H as [|? ? Hnin Hnd]; subst.
      destruct (N.eqb k k') eqn:E; cbn.
      + apply N.eqb_eq in E; subst. now constructor.
      + constructor; [|now apply IH].
        intros Hin. apply in_keys_aget in Hin as [v2 Hv2].
        rewrite aget_aset in Hv2. destruct (N.eqb k' k) eqn:E2.
        * apply N.eqb_eq in E2; subst. now rewrite N.eqb_refl in E.
        * apply aget_in in Hv2. apply Hnin. change k' with (fst (k', v2)). now apply in_map.
  Qed.

  Lemma in_adel k x m : In x (adel k m) -> In x m.
  Proof.
    induction m as [|[k' v'] m IH]; cbn; auto.
    destruct (N.eqb k k'); cbn; intuition.
  Qed.

  Lemma akeys_adel_nodup k m : NoDup (akeys m) -> NoDup (akeys (adel k m)).
  Proof.
    induction m as [|[k' v'] m IH]; cbn; intros H; auto.
    inversion H as [|? ? Hnin Hnd]; subst.
    destruct (N.eqb k k'); cbn; auto.
    constructor; auto. intros Hin. apply Hnin.
    unfold akeys in *. apply in_map_iff in Hin as [[a b] [Hf Hin]]. cbn in Hf; subst.
    apply in_adel in Hin. change k' with (fst (k', b)). now apply in_map.
  Qed.
End AMap.

(* Sum of a Z-valued projection over a map.  [aset] replaces the first binding and [aget]
   reads the first binding, so the update law needs no uniqueness hypothesis. *)
Section ASum.
  Context {V : Type} (f : V -> Z).

  Fixpoint asum (m : amap V) : Z :=
    match m with [] => 0 | kv :: m' => f (snd kv) + asum m' end.
  Definition aval (k : N) (m : amap V) : Z :=
    match aget k m with Some v => f v | None => 0 end.

  Lemma asum_aset k v m : asum (aset k v m) = asum m - aval k m + f v.
  Proof.
    unfold aval. induction m as [|[k' v'] m IH]; cbn; [lia|].
    destruct (N.eqb k k') eqn:E; cbn; [lia|]. rewrite IH. lia.
  Qed.

  Lemma asum_adel k m : NoDup (akeys m) -> asum (adel k m) = asum m - aval k m.
  Proof.
    unfold aval. induction m as [|[k' v'] m IH]; cbn; intros H; [lia|].
    inversion H as [|? ? Hnin Hnd]; subst.
    destruct (N.eqb k k') eqn:E; cbn.
    - apply N.eqb_eq in E; subst.
      assert (Hk : aget k' m = None).
      { destruct (aget k' m) eqn:G; auto. apply aget_in in G. exfalso. apply Hnin.
        change k' with (fst (k', v)). now apply in_map. }
      specialize (IH Hnd). rewrite Hk in IH. lia.
    - rewrite IH by assumption. lia.
  Qed.
End ASum.

(* sorted insertion / canonical sorting of id lists for comparing sets *)
Fixpoint ins_sorted (x : N) (l : list N) : list N :=
  match l with
  | [] => [x]
  | y :: l' => if N.ltb x y then x :: l else if N.eqb x y then l else y :: ins_sorted x l'
  end.
Definition sort_ids (l : list N) : list N := fold_right ins_sorted [] l.

(* plain insertion sort (keeps duplicates) *)
Fixpoint ins_plain (x : N) (l : list N) : list N :=
  match l with
  | [] => [x]
  | y :: l' => if N.leb x y then x :: l else y :: ins_plain x l'
  end.
Definition isort (l : list N) : list N := fold_right ins_plain [] l.

Fixpoint nodupb (l : list N) : bool :=
  match l with [] => true | x :: l' => negb (existsb (N.eqb x) l') && nodupb l' end.

Fixpoint list_eqb {A} (eqb : A -> A -> bool) (a b : list A) : bool :=
  match a, b with
  | [], [] => true
  | x :: a', y :: b' => eqb x y && list_eqb eqb a' b'
  | _, _ => false
  end.

Definition memb (x : N) (l : list N) : bool := existsb (N.eqb x) l.

Lemma memb_In x l : memb x l = true <-> In x l.
Proof.
  unfold memb. rewrite existsb_exists. split.
  - intros [y [Hin He]]. apply N.eqb_eq in He. now subst.
  - intros H. exists x. split; auto. apply N.eqb_refl.
Qed.
