(* Wedge.v — request handlers sharing one mutex (the pool mutex p.mu of pool/service.go, which
   every keep-alive, host registration, peer request, disconnect hook and NumRemotes takes), and
   remote peers that may never answer (C15: "every other connection keeps being served").
   A handler is a list of steps; waiting for a remote party is a step that a hostile peer can
   keep from ever completing.  No proofs in this file. *)
From VP Require Import Base.

Inductive wop :=
| WAcq      (* p.mu.Lock() *)
| WRel      (* p.mu.Unlock() *)
| WWork     (* local computation, store access *)
| WWait.    (* blocks until a remote party answers (a reply to the pool's own call, a channel
               fed by such a call): under a hostile peer, never enabled *)

Record wst := { w_holder : option nat; w_thr : list (list wop) }.

Fixpoint set_nth {A} (n : nat) (x : A) (l : list A) : list A :=
  match l, n with
  | [], _ => []
  | _ :: r, O => x :: r
  | y :: r, S n' => y :: set_nth n' x r
  end.

(* thread t performs its next step; None when it cannot (finished, waiting on a remote, or the
   mutex is taken) *)
Definition wstep (s : wst) (t : nat) : option wst :=
  match nth_error (w_thr s) t with
  | Some (WAcq :: p) => match w_holder s with
                        | None => Some {| w_holder := Some t; w_thr := set_nth t p (w_thr s) |}
                        | Some _ => None
                        end
  | Some (WRel :: p) => match w_holder s with
                        | Some h => if Nat.eqb h t then Some {| w_holder := None; w_thr := set_nth t p (w_thr s) |} else None
                        | None => None
                        end
  | Some (WWork :: p) => Some {| w_holder := w_holder s; w_thr := set_nth t p (w_thr s) |}
  | _ => None
  end.

Fixpoint wrun (s : wst) (sch : list nat) : wst :=
  match sch with
  | [] => s
  | t :: r => match wstep s t with
              | Some s' => wrun s' r
              | None => wrun s r
              end
  end.

(* the discipline: the mutex is taken and released in pairs, and nothing waits for a remote party
   while holding it *)
Fixpoint wf (inside : bool) (p : list wop) : bool :=
  match p with
  | [] => negb inside                      (* a handler ends outside the critical section *)
  | WAcq :: r => if inside then false else wf true r      (* not re-entrant *)
  | WRel :: r => if inside then wf false r else false
  | WWork :: r => wf inside r
  | WWait :: r => if inside then false else wf false r    (* never wait while holding the mutex *)
  end.

Definition next_is_wait (s : wst) (t : nat) : bool :=
  match nth_error (w_thr s) t with Some (WWait :: _) => true | _ => false end.
Definition finished_thr (s : wst) (t : nat) : bool :=
  match nth_error (w_thr s) t with Some [] | None => true | _ => false end.
Definition steps_left (s : wst) (t : nat) : nat :=
  match nth_error (w_thr s) t with Some p => length p | None => O end.
