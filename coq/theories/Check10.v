(* Check10.v — correspondence predicate for the snapshot part of C10: every balance a real
   driver handed out must, at the end of the history, still read what the fresh-cell model says
   it read when it was handed out. *)
From VP Require Import Base Snapshot.

Record c10_case := { c10_linked : bool; c10_ops : list mop; c10_final_reads : list Z }.

(* node 2 and wallet 3 are one owner once linked *)
Definition owner_of (linked : bool) (k : N) : N := if linked && N.eqb k 2 then 3%N else k.
Definition norm (linked : bool) (o : mop) : mop :=
  match o with MAdd k d => MAdd (owner_of linked k) d | MGet k => MGet (owner_of linked k) end.

(* a Get of an owner with no cell yet reads 0: give it a cell first *)
Fixpoint refs_of (s : mstore) (ops : list mop) : mstore * list ref :=
  match ops with
  | [] => (s, [])
  | MGet k :: rest =>
      let s1 := match aget k (ms_bal s) with Some _ => s | None => fst (mstep Fresh s (MAdd k 0)) end in
      match snd (mstep Fresh s1 (MGet k)) with
      | Some r => let '(s2, rs) := refs_of s1 rest in (s2, r :: rs)
      | None => refs_of s1 rest
      end
  | o :: rest => refs_of (fst (mstep Fresh s o)) rest
  end.

Definition c10_check (c : c10_case) : bool :=
  let '(s, rs) := refs_of ms0 (map (norm (c10_linked c)) (c10_ops c)) in
  list_eqb Z.eqb (map (read (ms_heap s)) rs) (c10_final_reads c).
