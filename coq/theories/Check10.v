(* Check10.v — correspondence predicate for the snapshot part of C10: every balance a real
   driver handed out must, at the end of the history, still read what the fresh-cell model says
   it read when it was handed out. *)
From VP Require Import Base Snapshot.

Record c10_case := { c10_linked : bool; c10_ops : list mop; c10_final_reads : list Z }.

(* node 2 and wallet 3 are one owner once linked *)
Definition owner_of (linked : bool) (k : N) : N := if linked && N.eqb k 2 then 3%N else k.
Definition norm (linked : bool) (o : mop) : mop :=
  match o with MAdd k d => MAdd (owner_of linked k) d | MGet k => MGet (owner_of linked k) end.

(* a Get of an owner with no cell yet reads 0: give it a cell first *)
Fixpoint refs_of (s : mstore) (ops : list mop) : mstore * list ref :=
  match ops with
  | [] => (s, [])
  | MGet k :: rest =>
      let s1 := match aget k (ms_bal s) with Some _ => s | None => fst (mstep Fresh s (MAdd k 0)) end in
      match snd (mstep Fresh s1 (MGet k)) with
      | Some r => let '(s2, rs) := refs_of s1 rest in (s2, r :: rs)
      | None => refs_of s1 rest
      end
  | o :: rest => refs_of (fst (mstep Fresh s o)) rest
  end.

Definition c10_check (c : c10_case) : bool :=
  let '(s, rs) := refs_of ms0 (map (norm (c10_linked c)) (c10_ops c)) in
  list_eqb Z.eqb (map (read (ms_heap s)) rs) (c10_final_reads c).

(* ---------- call traces (the request programs of Conc.v against the real handlers) ---------- *)
From VP Require Import Nonce Store Pool Conc.

(* the calls a program makes when run alone from [st], every action reading clock value [now] *)
Fixpoint solo_trace (fuel : nat) (X E now : Z) (st : sstate) (p : prog) : list sop :=
  match fuel, p with
  | S f, Call o k => let '(st', r) := sstep X E now st o in o :: solo_trace f X E now st' (k r)
  | _, _ => []
  end.

(* the peers of a keep-alive are credited in the order the driver lists them (map order for the
   memory driver): runs of consecutive node-balance adds are compared as multisets, and an add
   of zero (a keep-alive that credited nobody debits 0) is no call at all *)
Definition pair_leb (a b : N * Z) : bool :=
  N.ltb (fst a) (fst b) || (N.eqb (fst a) (fst b) && Z.leb (snd a) (snd b)).
Fixpoint ins_pair (x : N * Z) (l : list (N * Z)) : list (N * Z) :=
  match l with [] => [x] | y :: r => if pair_leb x y then x :: l else y :: ins_pair x r end.
Definition flush (run : list (N * Z)) : list sop := map (fun p => AddNodeBal (fst p) (snd p)) run.
Fixpoint canon (run : list (N * Z)) (l : list sop) : list sop :=
  match l with
  | [] => flush run
  | AddNodeBal q c :: r => if Z.eqb c 0 then canon run r   (* adding nothing: no observable effect *)
                           else canon (ins_pair (q, c) run) r
  | o :: r => flush run ++ o :: canon [] r
  end.

Definition sop_eqb (a b : sop) : bool :=
  match a, b with
  | GetNode i, GetNode j => N.eqb i j
  | SetNode x, SetNode y =>   (* the timestamp is the wall clock's *)
      N.eqb (n_id x) (n_id y) && N.eqb (n_uri x) (n_uri y) && N.eqb (n_kind x) (n_kind y) &&
      Bool.eqb (n_host x) (n_host y) && N.eqb (n_payout x) (n_payout y)
  | NodePeers i, NodePeers j => N.eqb i j
  | UpdatePeers i l b, UpdatePeers j m c => N.eqb i j && list_eqb N.eqb l m && N.eqb b c
  | GetNodeBal i, GetNodeBal j => N.eqb i j
  | AddNodeBal i d, AddNodeBal j e => N.eqb i j && Z.eqb d e
  | GetAcctBal i, GetAcctBal j => N.eqb i j
  | AddAcctBal i d, AddAcctBal j e => N.eqb i j && Z.eqb d e
  | AddAcctNode a i, AddAcctNode b j => N.eqb a b && N.eqb i j
  | _, _ => false
  end.

(* what the handler of each pool operation is modelled to call, from the state the history
   reached; [None] = not a modelled program (deposits, clock shifts, refusals, peer requests) *)
Definition expected_trace (cfg : pcfg) (s : pstate) (o : pop) (fuel : nat) : option (list sop) :=
  let st := ps_store s in
  let X := p_X cfg in let E := p_E cfg in
  match o with
  | OUpdate i reported blk now_s now_b =>
      Some (solo_trace fuel X E now_s st (update_prog cfg i reported blk now_b))
  | OAddNode w i => Some (solo_trace fuel X E 0 st (add_node_prog w i))
  | OWithdraw w ok =>
      if negb (p_settle_enabled cfg) then Some []
      else let paid := match snd (pstep cfg s o) with OutRes (PPaid _) => true | _ => false end in
           Some (solo_trace fuel X E 0 st (withdraw_prog w (fun _ => paid)))
  | OConnect nd =>
      (* connect_prog reads the balance back unconditionally; the handler only does for clients
         of a pool with a minimum balance — a read either way *)
      let reads := match p_min cfg with Some _ => negb (n_host nd) | None => false end in
      Some (SetNode nd :: if reads then [GetNodeBal (n_id nd)] else [])
  | _ => None
  end.

Record trace_case := { tc_cfg : pcfg; tc_items : list (pop * list sop) }.

Fixpoint tfirst_diff (cfg : pcfg) (s : pstate) (items : list (pop * list sop)) (k : nat) : option nat :=
  match items with
  | [] => None
  | (o, obs) :: rest =>
      let ok := match expected_trace cfg s o (length obs + 8) with
                | None => true
                | Some e => list_eqb sop_eqb (canon [] e) (canon [] obs)
                end in
      if ok then tfirst_diff cfg (fst (pstep cfg s o)) rest (S k) else Some k
  end.

Definition trace_check (c : trace_case) : bool :=
  match tfirst_diff (tc_cfg c) ps0 (tc_items c) 0 with None => true | Some _ => false end.

Inductive c10_any := CSnap (c : c10_case) | CTrace (t : trace_case).
Definition c10_any_check (c : c10_any) : bool :=
  match c with CSnap c => c10_check c | CTrace t => trace_check t end.
