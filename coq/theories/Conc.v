(* Conc.v — concurrent requests as interleavings of atomic store actions (C01, C07, C10).
   A request handler is a program whose [Call] nodes are the store calls it makes, each atomic
   (memory driver: one mutex; persistent driver: one transaction, retried on conflict, so a
   conflicting attempt has no effect and the committed attempt is atomic at its commit point).
   A schedule picks which thread performs its next action and the clock value it reads. *)
From VP Require Import Base Nonce Store StoreProofs Pool.

Inductive prog :=
| Done (settled : Z)                       (* finished; credit it settled by a withdrawal (else 0) *)
| Call (o : sop) (k : sres -> prog).

Record conf := { c_st : sstate; c_thr : list prog }.

Fixpoint upd_nth {A} (n : nat) (x : A) (l : list A) : list A :=
  match l, n with
  | [], _ => []
  | _ :: r, O => x :: r
  | y :: r, S n' => y :: upd_nth n' x r
  end.

Definition sched_step (X E : Z) (c : conf) (ev : nat * Z) : conf :=
  let '(t, now) := ev in
  match nth_error (c_thr c) t with
  | Some (Call o k) =>
      let '(st', r) := sstep X E now (c_st c) o in
      {| c_st := st'; c_thr := upd_nth t (k r) (c_thr c) |}
  | _ => c
  end.

Definition run_sched (X E : Z) (c : conf) (sch : list (nat * Z)) : conf := fold_left (sched_step X E) sch c.

Definition finished (p : prog) : bool := match p with Done _ => true | _ => false end.
Definition settled_of_prog (p : prog) : Z := match p with Done s => s | _ => 0 end.
Fixpoint zsuml (l : list Z) : Z := match l with [] => 0 | x :: r => x + zsuml r end.

(* ---------- request programs ---------- *)
Fixpoint credit_prog (peers : list N) (c tot : Z) (k : Z -> prog) : prog :=
  match peers with
  | [] => k tot
  | q :: rest => Call (AddNodeBal q c)
                      (fun r => credit_prog rest c (match r with ROk => tot + c | _ => tot end) k)
  end.

Definition read_back (i : N) : prog := Call (GetNodeBal i) (fun _ => Done 0).

(* payPerInterval.OnUpdate as a program *)
Definition on_update_prog (cfg : pcfg) (now_b : Z) (nd : node) (peers : list N) : prog :=
  if n_host nd then read_back (n_id nd)
  else if (p_interval cfg <=? 0) || (p_price cfg =? 0) then Done 0
  else
    let c := interval_credit cfg now_b (n_seen nd) in
    if c =? 0 then read_back (n_id nd)
    else credit_prog peers c 0
           (fun tot => Call (AddNodeBal (n_id nd) (- tot))
                            (fun r => match r with ROk => read_back (n_id nd) | _ => Done 0 end)).

(* VipnodePool.Update as a program *)
Definition update_prog (cfg : pcfg) (i : N) (reported : list N) (blk : N) (now_b : Z) : prog :=
  Call (GetNode i) (fun r =>
    match r with
    | RNode before =>
        Call (UpdatePeers i reported blk) (fun r1 =>
          match r1 with
          | RIds _ =>
              Call (NodePeers i) (fun r2 =>
                match r2 with
                | RNodes active => on_update_prog cfg now_b before (map n_id active)
                | _ => Done 0
                end)
          | _ => Done 0
          end)
    | _ => Done 0
    end).

(* connect: store the record, then (clients, with a minimum set) read the balance *)
Definition connect_prog (nd : node) : prog :=
  Call (SetNode nd) (fun r => match r with ROk => read_back (n_id nd) | _ => Done 0 end).

Definition add_node_prog (w i : N) : prog := Call (AddAcctNode w i) (fun _ => Done 0).

(* PaymentService.Withdraw (under the service's withdraw mutex): read, settle, take the settled
   credit off the ledger; [decide] is the minimum/fee/settlement outcome for the balance read *)
Definition withdraw_prog (w : N) (decide : Z -> bool) : prog :=
  Call (GetAcctBal w) (fun r =>
    match r with
    | RBal b => if decide (b_credit b)
                then Call (AddAcctBal w (- b_credit b)) (fun _ => Done (b_credit b))
                else Done 0
    | _ => Done 0
    end).
