(* Check08.v / Check09 — correspondence predicates for peer requests and the host registry. *)
From VP Require Import Base Nonce Store ReqHosts.

(* ---------- C09: after every event, a probe request reaches exactly the registry's connections *)
Inductive c09_ev :=
| EvReg (h c : N) (num_remotes : nat)
| EvClose (c : N) (num_remotes : nat)
| EvProbe (conns_called : list N).      (* connection ids that received a whitelist call *)

Record c09_case := { c9_evs : list c09_ev }.

Fixpoint c09_run (r : registry) (evs : list c09_ev) (k : nat) : option nat :=
  match evs with
  | [] => None
  | EvReg h c n :: rest =>
      let r' := reg_step r (RRegister h c) in
      if Nat.eqb (length r') n then c09_run r' rest (S k) else Some k
  | EvClose c n :: rest =>
      let r' := reg_step r (RClose c) in
      if Nat.eqb (length r') n then c09_run r' rest (S k) else Some k
  | EvProbe called :: rest =>
      if list_eqb N.eqb (isort (map snd r)) (isort called) then c09_run r rest (S k) else Some k
  end.
Definition c09_check (c : c09_case) : bool := match c09_run [] (c9_evs c) 0 with None => true | Some _ => false end.
Definition c09_diag (c : c09_case) : Z := match c09_run [] (c9_evs c) 0 with None => -1 | Some k => Z.of_nat k end.

(* ---------- C08 ---------- *)
Record c08_case := {
  c8_X : Z; c8_now : Z;
  c8_nodes : list node;           (* every registered node as the store reports it *)
  c8_self : N; c8_self_registered : bool;
  c8_peers : list N;              (* the requester's tracked peers *)
  c8_connected : list N;          (* hosts with a live registered connection *)
  c8_maxh : Z; c8_num : Z; c8_kind : N;
  c8_outs : amap outcome;         (* scripted answer of each host *)
  c8_calls : list N; c8_reply : list N;   (* observed *)
  c8_err : N                      (* observed: 0 none, 1 unregistered, 2 no hosts, 3 host errors *)
}.

Definition subsetb (a b : list N) : bool := forallb (fun x => memb x b) a.

Definition c08_check (c : c08_case) : bool :=
  let n := effective_num (c8_maxh c) (c8_num c) in
  if n <=? 0 then
    match c8_calls c, c8_reply c with [], [] => N.eqb (c8_err c) 0 | _, _ => false end
  else if negb (c8_self_registered c) then
    match c8_reply c with [] => N.eqb (c8_err c) 1 | _ => false end
  else
    let skip := c8_self c :: c8_peers c in
    let active_kind := filter (eligible_host (c8_X c) (c8_now c) (c8_kind c)) (c8_nodes c) in
    let elig := filter (fun h => negb (memb h skip) && memb h (c8_connected c)) (map n_id active_kind) in
    let acked := filter (fun h => is_ack (outcome_of (c8_outs c) h)) (c8_calls c) in
    nodupb (c8_calls c) && subsetb (c8_calls c) elig &&
    (Z.of_nat (length (c8_calls c)) <=? n) &&
    (* exactness when every active host of the kind is eligible *)
    (if Nat.eqb (length elig) (length active_kind)
     then Z.eqb (Z.of_nat (length (c8_calls c))) (Z.min n (Z.of_nat (length elig))) else true) &&
    list_eqb N.eqb (isort (c8_reply c)) (isort acked) && nodupb (c8_reply c) &&
    N.eqb (c8_err c)
          (match acked with
           | _ :: _ => 0
           | [] => if forallb (fun h => is_ack (outcome_of (c8_outs c) h)) (c8_calls c) then 2 else 3
           end).
