(* PoolProofs.v — ledger theorems for the pool API (C01) and the balance manager (C02, C03). *)
From VP Require Import Base Nonce Store StoreProofs Pool.

Definition Good (st : sstate) : Prop := Inv st /\ NodeKeys st.

Lemma Good_step X E now st o : Good st -> Good (fst (sstep X E now st o)).
Proof. intros [H1 H2]. split; [now apply Inv_step|now apply NodeKeys_step]. Qed.

Lemma add_node_bal_res X E now st q d :
  snd (sstep X E now st (AddNodeBal q d)) = if registered st q then ROk else RErr EUnregistered.
Proof.
  cbn [sstep]. destruct (registered st q); auto. destruct (aget q (s_link st)); auto.
Qed.

(* ---------- crediting the peers ---------- *)
Lemma credit_peers_spec cfg peers c : forall st,
  Good st ->
  Good (fst (credit_peers cfg st peers c)) /\
  total (fst (credit_peers cfg st peers c)) = total st + snd (credit_peers cfg st peers c) /\
  (forall j, registered st j = registered (fst (credit_peers cfg st peers c)) j) /\
  s_link (fst (credit_peers cfg st peers c)) = s_link st /\
  s_nodes (fst (credit_peers cfg st peers c)) = s_nodes st /\
  s_peers (fst (credit_peers cfg st peers c)) = s_peers st.
Proof.
  induction peers as [|q rest IH]; intros st HG; cbn [credit_peers].
  - cbn. split; [exact HG|]. split; [lia|]. repeat split; auto.
  - pose proof (add_node_bal_res (p_X cfg) (p_E cfg) 0 st q c) as Hr.
    pose proof (total_step (p_X cfg) (p_E cfg) 0 st (AddNodeBal q c) (proj1 HG)) as Ht.
    pose proof (Good_step (p_X cfg) (p_E cfg) 0 st (AddNodeBal q c) HG) as HG1.
    assert (Hsame : s_link (fst (sstep (p_X cfg) (p_E cfg) 0 st (AddNodeBal q c))) = s_link st /\
                    s_nodes (fst (sstep (p_X cfg) (p_E cfg) 0 st (AddNodeBal q c))) = s_nodes st /\
                    s_peers (fst (sstep (p_X cfg) (p_E cfg) 0 st (AddNodeBal q c))) = s_peers st).
    { cbn [sstep]. destruct (registered st q); [|auto]. destruct (aget q (s_link st)); cbn; auto. }
    destruct (sstep (p_X cfg) (p_E cfg) 0 st (AddNodeBal q c)) as [st1 r]. cbn [fst snd] in *.
    specialize (IH st1 HG1). destruct (credit_peers cfg st1 rest c) as [st2 tot]. cbn [fst snd] in *.
    destruct IH as (HG2 & Ht2 & Hreg & Hl & Hn & Hp). destruct Hsame as (Hl1 & Hn1 & Hp1).
    split; [exact HG2|]. split; [|split; [|split; [|split]]].
    + rewrite Ht2, Ht. cbn [ledger_delta]. subst r. destruct (registered st q); lia.
    + intros j. rewrite <- Hreg. unfold registered. now rewrite Hn1.
    + congruence.
    + congruence.
    + congruence.
Qed.

(* ---------- OnUpdate never changes the ledger total ---------- *)
Theorem on_update_total cfg dep now_b st nd peers :
  Good st -> registered st (n_id nd) = true ->
  Good (fst (on_update cfg dep now_b st nd peers)) /\
  total (fst (on_update cfg dep now_b st nd peers)) = total st.
Proof.
  intros HG Hreg. unfold on_update.
  destruct (n_host nd); [cbn; auto|].
  destruct ((p_interval cfg <=? 0) || (p_price cfg =? 0)); [cbn; auto|].
  destruct (interval_credit cfg now_b (n_seen nd) =? 0); [cbn; auto|].
  set (c := interval_credit cfg now_b (n_seen nd)).
  destruct (credit_peers_spec cfg peers c st HG) as (HG1 & Ht1 & Hreg1 & _).
  destruct (credit_peers cfg st peers c) as [st1 tot]. cbn [fst snd] in *.
  pose proof (add_node_bal_res (p_X cfg) (p_E cfg) 0 st1 (n_id nd) (- tot)) as Hr.
  pose proof (total_step (p_X cfg) (p_E cfg) 0 st1 (AddNodeBal (n_id nd) (- tot)) (proj1 HG1)) as Ht.
  pose proof (Good_step (p_X cfg) (p_E cfg) 0 st1 (AddNodeBal (n_id nd) (- tot)) HG1) as HG2.
  destruct (sstep (p_X cfg) (p_E cfg) 0 st1 (AddNodeBal (n_id nd) (- tot))) as [st2 r]. cbn [fst snd] in *.
  cbn [ledger_delta] in Ht. rewrite <- Hreg1, Hreg in Ht, Hr. subst r.
  assert (Hfin : Good st2 /\ total st2 = total st) by (split; [exact HG2|lia]).
  destruct (get_bal cfg dep st2 (n_id nd)); cbn [fst]; auto.
  destruct (p_min cfg); [destruct (_ <? _)|]; cbn [fst]; auto.
Qed.

Lemma registered_step X E now st o j :
  registered st j = true -> registered (fst (sstep X E now st o)) j = true.
Proof. apply registered_mono. Qed.

Theorem pool_update_total cfg dep conn now_s now_b st i reported blk :
  Good st ->
  Good (fst (pool_update cfg dep conn now_s now_b st i reported blk)) /\
  total (fst (pool_update cfg dep conn now_s now_b st i reported blk)) = total st.
Proof.
  intros HG. unfold pool_update.
  destruct (aget i (s_nodes st)) as [before|] eqn:Hb; [|cbn; auto].
  pose proof (total_step (p_X cfg) (p_E cfg) now_s st (UpdatePeers i reported blk) (proj1 HG)) as Ht.
  pose proof (Good_step (p_X cfg) (p_E cfg) now_s st (UpdatePeers i reported blk) HG) as HG1.
  assert (Hreg : registered (fst (sstep (p_X cfg) (p_E cfg) now_s st (UpdatePeers i reported blk))) (n_id before) = true).
  { apply registered_step. unfold registered, amem. rewrite (proj2 HG _ _ Hb), Hb. reflexivity. }
  destruct (sstep (p_X cfg) (p_E cfg) now_s st (UpdatePeers i reported blk)) as [st1 r1]. cbn [fst snd] in *.
  destruct (on_update_total cfg dep now_b st1 before (akeys (peers_of st1 i)) HG1 Hreg) as [HG2 Ht2].
  destruct (on_update cfg dep now_b st1 before (akeys (peers_of st1 i))) as [st2 res]. cbn [fst] in *.
  split; [exact HG2|]. cbn [ledger_delta] in Ht. lia.
Qed.

Theorem pool_connect_total cfg dep st nd :
  Good st -> Good (fst (pool_connect cfg dep st nd)) /\ total (fst (pool_connect cfg dep st nd)) = total st.
Proof.
  intros HG. unfold pool_connect.
  pose proof (total_step (p_X cfg) (p_E cfg) (n_seen nd) st (SetNode nd) (proj1 HG)) as Ht.
  pose proof (Good_step (p_X cfg) (p_E cfg) (n_seen nd) st (SetNode nd) HG) as HG1.
  destruct (sstep (p_X cfg) (p_E cfg) (n_seen nd) st (SetNode nd)) as [st1 r]. cbn [fst ledger_delta] in *.
  destruct r; cbn [fst]; split; auto; lia.
Qed.

Theorem pay_add_node_total cfg st w i :
  Good st -> Good (fst (pay_add_node cfg st w i)) /\ total (fst (pay_add_node cfg st w i)) = total st.
Proof.
  intros HG. unfold pay_add_node.
  pose proof (total_step (p_X cfg) (p_E cfg) 0 st (AddAcctNode w i) (proj1 HG)) as Ht.
  pose proof (Good_step (p_X cfg) (p_E cfg) 0 st (AddAcctNode w i) HG) as HG1.
  destruct (sstep (p_X cfg) (p_E cfg) 0 st (AddAcctNode w i)) as [st1 r]. cbn [fst ledger_delta] in *.
  destruct r; cbn [fst]; split; auto; lia.
Qed.

(* credit settled by a withdrawal (0 unless it pays) *)
Definition settled_of (r : pres) (credit_before : Z) : Z :=
  match r with PPaid _ => credit_before | _ => 0 end.

Theorem pay_withdraw_total cfg dep st w ok :
  Good st ->
  let '(st', dep', r) := pay_withdraw cfg dep st w ok in
  Good st' /\ total st' = total st - settled_of r (b_credit (acct_bal st w)).
Proof.
  intros HG. unfold pay_withdraw.
  pose proof (total_step (p_X cfg) (p_E cfg) 0 st (AddAcctBal w (- b_credit (acct_bal st w))) (proj1 HG)) as Ht.
  pose proof (Good_step (p_X cfg) (p_E cfg) 0 st (AddAcctBal w (- b_credit (acct_bal st w))) HG) as HG1.
  cbn [ledger_delta] in Ht.
  destruct (negb (p_settle_enabled cfg)); [cbn; split; auto; lia|].
  destruct (p_wmin cfg) as [m|].
  - destruct (_ <? m); [cbn; split; auto; lia|]. destruct ok; cbn; split; auto; lia.
  - destruct ok; cbn; split; auto; lia.
Qed.

(* ---------- every pool operation ---------- *)
Definition settled_step (cfg : pcfg) (s : pstate) (o : pop) : Z :=
  match o with
  | OWithdraw w ok =>
      let '(_, _, r) := pay_withdraw cfg (ps_dep s) (ps_store s) w ok in
      settled_of r (b_credit (acct_bal (ps_store s) w))
  | _ => 0
  end.

Theorem pstep_total cfg s o :
  Good (ps_store s) ->
  Good (ps_store (fst (pstep cfg s o))) /\
  total (ps_store (fst (pstep cfg s o))) = total (ps_store s) - settled_step cfg s o.
Proof.
  intros HG. destruct o; cbn [pstep settled_step].
  - destruct (pool_connect_total cfg (ps_dep s) (ps_store s) nd HG) as [H1 H2].
    destruct (pool_connect cfg (ps_dep s) (ps_store s) nd). cbn in *. split; auto; lia.
  - destruct (pool_update_total cfg (ps_dep s) (ps_connected s) now_s now_b (ps_store s) i reported blk HG) as [H1 H2].
    destruct (pool_update cfg (ps_dep s) (ps_connected s) now_s now_b (ps_store s) i reported blk). cbn in *. split; auto; lia.
  - destruct (pay_add_node_total cfg (ps_store s) w i HG) as [H1 H2].
    destruct (pay_add_node cfg (ps_store s) w i). cbn in *. split; auto; lia.
  - pose proof (pay_withdraw_total cfg (ps_dep s) (ps_store s) w settle_ok HG) as H.
    destruct (pay_withdraw cfg (ps_dep s) (ps_store s) w settle_ok) as [[st' dep'] r]. cbn in *. exact H.
  - cbn. split; auto; lia.
  - cbn [fst ps_store]. split.
    + now apply Good_step.
    + pose proof (total_step (p_X cfg) (p_E cfg) 0 (ps_store s) (Advance d) (proj1 HG)) as Ht.
      cbn [ledger_delta] in Ht. lia.
  - cbn. split; auto; lia.
  - cbn. split; auto; lia.
Qed.

Fixpoint settled_run (cfg : pcfg) (s : pstate) (ops : list pop) : Z :=
  match ops with
  | [] => 0
  | o :: rest => settled_step cfg s o + settled_run cfg (fst (pstep cfg s o)) rest
  end.

(* zero-sum for every history: only successful withdrawals change the total, by what they settle *)
Theorem prun_total cfg ops : forall s,
  Good (ps_store s) ->
  Good (ps_store (prun cfg s ops)) /\
  total (ps_store (prun cfg s ops)) = total (ps_store s) - settled_run cfg s ops.
Proof.
  induction ops as [|o rest IH]; intros s HG; cbn [prun settled_run].
  - split; auto; lia.
  - destruct (pstep_total cfg s o HG) as [HG1 Ht1].
    destruct (IH _ HG1) as [HG2 Ht2]. split; auto. lia.
Qed.

Lemma Good_s0 : Good s0.
Proof. split; [apply Inv_s0|apply NodeKeys_s0]. Qed.
