(* Nonce.v — executable models of CheckAndSaveNonce.
   [nstep]  : pool/store/memory/memory.go:51-65 (high-water map, missing = Go zero value 0).
   [bstep]  : pool/store/badger/badger.go:51-75 (entry with TTL; an expired entry reads as missing).
   Clock reads are inputs (nr_now, UnixNano).  No proofs in this file. *)
From VP Require Import Base.

Record nreq := { nr_now : Z; nr_id : N; nr_n : Z }.

Definition hw (st : amap Z) (i : N) : Z :=
  match aget i st with Some v => v | None => 0 end.

(* freshness: ExpireNonce > 0 && nonce <= now - ExpireNonce  ->  too old *)
Definition stale (E now n : Z) : bool := (0 <? E) && (n <=? now - E).

Definition nstep (E : Z) (st : amap Z) (r : nreq) : amap Z * bool :=
  if stale E (nr_now r) (nr_n r) then (st, false)
  else if nr_n r <=? hw st (nr_id r) then (st, false)
  else (aset (nr_id r) (nr_n r) st, true).

Fixpoint nrun (E : Z) (st : amap Z) (rs : list nreq) : list bool :=
  match rs with
  | [] => []
  | r :: rs' => let '(st', b) := nstep E st r in b :: nrun E st' rs'
  end.

Fixpoint nfinal (E : Z) (st : amap Z) (rs : list nreq) : amap Z :=
  match rs with
  | [] => st
  | r :: rs' => nfinal E (fst (nstep E st r)) rs'
  end.

(* accepted nonces of identity i, in order of acceptance *)
Fixpoint accepted (E : Z) (st : amap Z) (rs : list nreq) (i : N) : list Z :=
  match rs with
  | [] => []
  | r :: rs' =>
      let '(st', b) := nstep E st r in
      if b && N.eqb (nr_id r) i then nr_n r :: accepted E st' rs' i else accepted E st' rs' i
  end.

(* ---------- persistent driver: TTL entries ---------- *)
Definition second : Z := 1000000000.
Definition sec (t : Z) : Z := t / second.

Record bentry := { be_n : Z; be_exp : Z (* ExpiresAt, unix seconds; 0 = never *) }.

(* badger: expired iff ExpiresAt <> 0 && ExpiresAt <= now.Unix() *)
Definition bvisible (now : Z) (e : bentry) : bool := (be_exp e =? 0) || (sec now <? be_exp e).

(* TTL rules: the pinned code used [ttl_from_accept]; the repaired code uses [ttl_cover_nonce]. *)
Definition ttl_from_accept (E now n : Z) : Z := E.
Definition ttl_cover_nonce (E now n : Z) : Z := E + second + Z.max 0 (n - now).

Definition blast (now : Z) (st : amap bentry) (i : N) : Z :=
  match aget i st with
  | Some e => if bvisible now e then be_n e else 0
  | None => 0
  end.

Definition bstep (ttl : Z -> Z -> Z -> Z) (E : Z) (st : amap bentry) (r : nreq)
  : amap bentry * bool :=
  let now := nr_now r in
  if stale E now (nr_n r) then (st, false)
  else if nr_n r <=? blast now st (nr_id r) then (st, false)
  else
    let e := if 0 <? E then {| be_n := nr_n r; be_exp := sec (now + ttl E now (nr_n r)) |}
             else {| be_n := nr_n r; be_exp := 0 |} in
    (aset (nr_id r) e st, true).

Fixpoint brun ttl (E : Z) (st : amap bentry) (rs : list nreq) : list bool :=
  match rs with
  | [] => []
  | r :: rs' => let '(st', b) := bstep ttl E st r in b :: brun ttl E st' rs'
  end.

(* ---------- optimistic transactions on one key (concurrent duplicates) ----------
   A submission reads the key at [begin] (snapshot) and commits later; badger aborts a commit
   whose read key was written since the snapshot (ErrConflict, surfaced as a refusal). *)
Record occ_state := { oc_val : Z; oc_ver : nat }.
Inductive occ_out := OAccept | OReject | OConflict.

Record occ_txn := { ot_snap_val : Z; ot_snap_ver : nat; ot_n : Z }.
Definition occ_begin (s : occ_state) (n : Z) : occ_txn :=
  {| ot_snap_val := oc_val s; ot_snap_ver := oc_ver s; ot_n := n |}.
Definition occ_commit (s : occ_state) (t : occ_txn) : occ_state * occ_out :=
  if ot_n t <=? ot_snap_val t then (s, OReject)        (* read-only txn: nothing to validate *)
  else if Nat.eqb (ot_snap_ver t) (oc_ver s)
       then ({| oc_val := ot_n t; oc_ver := S (oc_ver s) |}, OAccept)
       else (s, OConflict).

(* a schedule over k submissions: each event is Begin j n or Commit j *)
Inductive occ_ev := EvBegin (j : nat) (n : Z) | EvCommit (j : nat).

Fixpoint occ_lookup (j : nat) (ts : list (nat * occ_txn)) : option occ_txn :=
  match ts with
  | [] => None
  | (j', t) :: ts' => if Nat.eqb j j' then Some t else occ_lookup j ts'
  end.

Fixpoint occ_run (s : occ_state) (ts : list (nat * occ_txn)) (evs : list occ_ev)
  : list (nat * occ_out) :=
  match evs with
  | [] => []
  | EvBegin j n :: evs' => occ_run s ((j, occ_begin s n) :: ts) evs'
  | EvCommit j :: evs' =>
      match occ_lookup j ts with
      | None => occ_run s ts evs'
      | Some t => let '(s', o) := occ_commit s t in (j, o) :: occ_run s' ts evs'
      end
  end.
