(* AuthProofs.v — theorems for C04 and C06. *)
From VP Require Import Base Nonce NonceProofs Auth.

Section Proofs.
  Variable pub : N -> N.
  Variable wallet_style : N -> bool.
  Notation sig_ok := (sig_ok pub wallet_style).
  Notation verify_once := (verify_once pub wallet_style).
  Notation verify_req := (verify_req pub wallet_style).

  Lemma payload_eqb_eq a b : payload_eqb a b = true <-> a = b.
  Proof.
    unfold payload_eqb. rewrite !andb_true_iff, Bool.eqb_true_iff, !N.eqb_eq, Z.eqb_eq.
    destruct a, b; cbn. split; [intros [[[[-> ->] ->] ->] ->]; reflexivity|intros [= -> -> -> -> ->]; auto].
  Qed.

  (* the signature check passes only for a signature made by the key of the named identity over
     exactly this method, identity, nonce and parameters *)
  Theorem sig_ok_binding s method id nonce params :
    sig_ok s method id nonce params = true <->
    exists k, s = Sig k {| pl_wallet_style := wallet_style id; pl_method := method; pl_id := id;
                           pl_nonce := nonce; pl_params := params |} /\ pub k = id.
  Proof.
    destruct s as [k p|]; cbn.
    - rewrite andb_true_iff, N.eqb_eq, payload_eqb_eq. split.
      + intros [Hk ->]. eauto.
      + intros [k' [[= -> ->] Hk]]. auto.
    - split; [discriminate|intros [k [H _]]; discriminate].
  Qed.

  (* changing any one component makes the check fail *)
  Theorem altered_component_refused k style m id n ps m' id' n' ps' :
    (m, id, n, ps) <> (m', id', n', ps') ->
    sig_ok (Sig k {| pl_wallet_style := style; pl_method := m; pl_id := id; pl_nonce := n; pl_params := ps |})
           m' id' n' ps' = false.
  Proof.
    intros Hne. destruct (sig_ok _ m' id' n' ps') eqn:H; auto.
    apply sig_ok_binding in H as [k' [[= _ -> -> -> ->] _]]. congruence.
  Qed.

  Theorem other_key_refused k p method id nonce params :
    pub k <> id -> sig_ok (Sig k p) method id nonce params = false.
  Proof.
    intros Hne. cbn. destruct (N.eqb_spec (pub k) id); [contradiction|reflexivity].
  Qed.

  Theorem garbage_refused method id nonce params : sig_ok Garbage method id nonce params = false.
  Proof. reflexivity. Qed.

  (* a correctly signed, fresh request always passes the verification step *)
  Theorem accepts_fresh E nonces r k :
    rq_sig r = Sig k {| pl_wallet_style := wallet_style (rq_id r); pl_method := rq_method r; pl_id := rq_id r;
                        pl_nonce := rq_nonce r; pl_params := rq_params r |} ->
    pub k = rq_id r -> stale E (rq_now r) (rq_nonce r) = false -> hw nonces (rq_id r) < rq_nonce r ->
    snd (verify_req E nonces r) = true.
  Proof.
    intros Hs Hk Hst Hhw. unfold Auth.verify_req, Auth.verify_once.
    assert (Hok : sig_ok (rq_sig r) (rq_method r) (rq_id r) (rq_nonce r) (rq_params r) = true)
      by (apply sig_ok_binding; eauto).
    rewrite Hok.
    assert (Hn : snd (nstep E nonces {| nr_now := rq_now r; nr_id := rq_id r; nr_n := rq_nonce r |}) = true)
      by (apply nstep_accept_iff; cbn; auto).
    destruct (nstep E nonces _) as [n1 ok1]. cbn in Hn. subst ok1. reflexivity.
  Qed.

  (* the verification step accepts only signatures binding identity, method, nonce and the
     parameters in the current or (where one exists) the deprecated format *)
  Theorem verify_req_binding E nonces r :
    snd (verify_req E nonces r) = true ->
    exists k params, (params = rq_params r \/ (params = rq_params_old r /\ rq_params_old r <> 0%N)) /\
      rq_sig r = Sig k {| pl_wallet_style := wallet_style (rq_id r); pl_method := rq_method r; pl_id := rq_id r;
                          pl_nonce := rq_nonce r; pl_params := params |} /\ pub k = rq_id r.
  Proof.
    unfold Auth.verify_req, Auth.verify_once.
    destruct (sig_ok (rq_sig r) (rq_method r) (rq_id r) (rq_nonce r) (rq_params r)) eqn:H1.
    - intros _. apply sig_ok_binding in H1 as [k [Hs Hk]]. exists k, (rq_params r). auto.
    - cbn. destruct (N.eqb_spec (rq_params_old r) 0); [discriminate|].
      destruct (sig_ok (rq_sig r) (rq_method r) (rq_id r) (rq_nonce r) (rq_params_old r)) eqn:H2; [|discriminate].
      intros _. apply sig_ok_binding in H2 as [k [Hs Hk]]. exists k, (rq_params_old r). auto.
  Qed.

  (* a request whose signature does not verify leaves the nonce table untouched *)
  Theorem bad_signature_keeps_nonces E nonces r :
    sig_ok (rq_sig r) (rq_method r) (rq_id r) (rq_nonce r) (rq_params r) = false ->
    (rq_params_old r = 0%N \/ sig_ok (rq_sig r) (rq_method r) (rq_id r) (rq_nonce r) (rq_params_old r) = false) ->
    verify_req E nonces r = (nonces, false).
  Proof.
    intros H1 H2. unfold Auth.verify_req, Auth.verify_once. rewrite H1.
    destruct H2 as [->|H2]; cbn; auto.
    destruct (N.eqb (rq_params_old r) 0); auto. now rewrite H2.
  Qed.

  (* a refused request leaves no trace at all: state, nonce table, calls to hosts *)
  Theorem refused_no_trace {S C : Type} (body : S -> sreq -> S * list C) E st r :
    snd (verify_req E (snd st) r) = false ->
    fst (verify_req E (snd st) r) = snd st ->
    endpoint_step pub wallet_style body E st r = (st, [], false).
  Proof.
    intros H1 H2. unfold endpoint_step. destruct (verify_req E (snd st) r) as [n' ok]. cbn in *.
    now subst.
  Qed.

  (* whatever the reason of the refusal (bad signature, wrong key, malformed signature, stale or
     repeated nonce), the nonce table is unchanged *)
  Theorem refusal_keeps_nonces E nonces r :
    snd (verify_req E nonces r) = false -> fst (verify_req E nonces r) = nonces.
  Proof.
    unfold Auth.verify_req, Auth.verify_once.
    destruct (sig_ok (rq_sig r) (rq_method r) (rq_id r) (rq_nonce r) (rq_params r)).
    - pose proof (nstep_reject_same E nonces {| nr_now := rq_now r; nr_id := rq_id r; nr_n := rq_nonce r |}) as Hr.
      destruct (nstep E nonces _) as [n1 ok1]. cbn in *. destruct ok1; [discriminate|].
      destruct (N.eqb (rq_params_old r) 0); cbn; [intros _; auto|].
      rewrite Hr by reflexivity.
      destruct (sig_ok (rq_sig r) (rq_method r) (rq_id r) (rq_nonce r) (rq_params_old r)); cbn; auto.
      pose proof (nstep_reject_same E nonces {| nr_now := rq_now r; nr_id := rq_id r; nr_n := rq_nonce r |}) as Hr2.
      destruct (nstep E nonces _) as [n2 ok2]. cbn in *. intros ->. auto.
    - cbn. destruct (N.eqb (rq_params_old r) 0); cbn; auto.
      destruct (sig_ok (rq_sig r) (rq_method r) (rq_id r) (rq_nonce r) (rq_params_old r)); cbn; auto.
      pose proof (nstep_reject_same E nonces {| nr_now := rq_now r; nr_id := rq_id r; nr_n := rq_nonce r |}) as Hr2.
      destruct (nstep E nonces _) as [n2 ok2]. cbn in *. intros ->. auto.
  Qed.

  Corollary endpoint_refused_no_trace {S C : Type} (body : S -> sreq -> S * list C) E st r :
    snd (verify_req E (snd st) r) = false ->
    endpoint_step pub wallet_style body E st r = (st, [], false).
  Proof. intros H. apply refused_no_trace; auto. now apply refusal_keeps_nonces. Qed.

  (* conversely: any effect of an endpoint implies a valid signature *)
  Theorem effect_implies_signed {S C : Type} (body : S -> sreq -> S * list C) E st r :
    endpoint_step pub wallet_style body E st r <> (st, [], false) ->
    exists k params, (params = rq_params r \/ (params = rq_params_old r /\ rq_params_old r <> 0%N)) /\
      rq_sig r = Sig k {| pl_wallet_style := wallet_style (rq_id r); pl_method := rq_method r; pl_id := rq_id r;
                          pl_nonce := rq_nonce r; pl_params := params |} /\ pub k = rq_id r.
  Proof.
    intros H. apply (verify_req_binding E (snd st)).
    destruct (snd (verify_req E (snd st) r)) eqn:Hv; auto.
    exfalso. apply H. now apply endpoint_refused_no_trace.
  Qed.

  (* so the owner's next request with a smaller-but-fresh nonce is still accepted after a
     forged request carrying a larger nonce *)
  Theorem owner_not_blocked E nonces forged own k :
    snd (verify_req E nonces forged) = false ->
    rq_id own = rq_id forged -> rq_nonce own <= rq_nonce forged ->
    rq_sig own = Sig k {| pl_wallet_style := wallet_style (rq_id own); pl_method := rq_method own; pl_id := rq_id own;
                          pl_nonce := rq_nonce own; pl_params := rq_params own |} ->
    pub k = rq_id own -> stale E (rq_now own) (rq_nonce own) = false -> hw nonces (rq_id own) < rq_nonce own ->
    snd (verify_req E (fst (verify_req E nonces forged)) own) = true.
  Proof.
    intros Hf _ _ Hs Hk Hst Hhw. rewrite refusal_keeps_nonces by assumption. eapply accepts_fresh; eauto.
  Qed.
End Proofs.

(* the nonce-first variant does burn the victim's nonce: with key 1 owning identity 1, a garbage
   request with nonce 100 makes the owner's fresh nonce 50 unusable *)
Definition ex_pub (k : N) : N := k.
Definition ex_style (_ : N) : bool := false.
Definition ex_forged : sreq := {| rq_method := 7; rq_sig := Garbage; rq_id := 1; rq_nonce := 100; rq_params := 3; rq_params_old := 0; rq_now := 100 |}.
Definition ex_own : sreq :=
  {| rq_method := 7; rq_sig := Sig 1 {| pl_wallet_style := false; pl_method := 7; pl_id := 1; pl_nonce := 50; pl_params := 3 |};
     rq_id := 1; rq_nonce := 50; rq_params := 3; rq_params_old := 0; rq_now := 101 |}.
Theorem order_matters :
  snd (verify_nonce_first ex_pub ex_style 900 (fst (verify_nonce_first ex_pub ex_style 900 [] ex_forged)) ex_own) = false /\
  snd (verify_req ex_pub ex_style 900 (fst (verify_req ex_pub ex_style 900 [] ex_forged)) ex_own) = true.
Proof. vm_compute. auto. Qed.

(* ---------- byte level: where the method name ends ---------- *)
Fixpoint no_bracket (l : bytes) : Prop := match l with [] => True | x :: r => x <> lbracket /\ no_bracket r end.

(* method names contain no '[' and the JSON array starts with one, so the split is unique:
   equal signed byte strings have equal method names and equal argument arrays *)
Theorem assemble_injective m1 m2 j1 j2 :
  no_bracket m1 -> no_bracket m2 -> hd_error j1 = Some lbracket -> hd_error j2 = Some lbracket ->
  assemble m1 j1 = assemble m2 j2 -> m1 = m2 /\ j1 = j2.
Proof.
  unfold assemble. revert m2. induction m1 as [|a m1 IH]; intros m2 H1 H2 Hj1 Hj2 Heq.
  - destruct m2 as [|b m2]; [auto|]. cbn in *. destruct j1 as [|x j1]; [discriminate|].
    injection Hj1 as ->. injection Heq as <- _. destruct H2 as [H2 _]. congruence.
  - destruct m2 as [|b m2].
    + cbn in *. destruct j2 as [|x j2]; [discriminate|]. injection Hj2 as ->.
      injection Heq as -> _. destruct H1 as [H1 _]. congruence.
    + cbn in *. injection Heq as -> Heq. destruct H1 as [_ H1]. destruct H2 as [_ H2].
      destruct (IH m2 H1 H2 Hj1 Hj2 Heq) as [-> ->]. auto.
Qed.

(* node-style payloads start with a letter of the method name, wallet-style ones with 0x19: a
   signature made in one style never verifies in the other *)
Theorem styles_never_collide m j declen msg a rest :
  m = a :: rest -> a <> 25%N -> assemble m j <> eip191 msg declen.
Proof. intros -> Ha. unfold assemble, eip191. cbn. intros [= H _]. contradiction. Qed.
