(* DispatchProofs.v — theorems for C16. *)
From Coq Require Import String Ascii.
From VP Require Import Base Dispatch.
Open Scope string_scope.

Lemma smem_In x l : smem x l = true <-> In x l.
Proof.
  induction l as [|y l IH]; cbn; [split; [discriminate|tauto]|].
  rewrite orb_true_iff, String.eqb_eq, IH. split; intros [H|H]; auto.
Qed.

Lemma lookup_in name reg m : lookup name reg = Some m -> In (name, m) reg.
Proof.
  induction reg as [|[n x] r IH]; cbn; [discriminate|].
  destruct (String.eqb_spec name n); [intros [= ->]; subst; now left|intros; right; auto].
Qed.
Lemma lookup_none name reg : lookup name reg = None <-> ~ In name (map fst reg).
Proof.
  induction reg as [|[n x] r IH]; cbn; [tauto|].
  destruct (String.eqb_spec name n); [split; [discriminate|intros H; exfalso; apply H; now left]|].
  rewrite IH. split; intros H; [intros [->|]; tauto|tauto].
Qed.

(* a service exposes exactly: prefix + lower-cased-first-letter method name, for the methods with
   usable parameter types, restricted to the allow-list when one is given *)
Theorem registered_names prefix ms allow reg name :
  register prefix ms allow = Some reg ->
  (In name (map fst reg) <->
   exists m, In m ms /\ name = prefix ++ lcfirst (gm_name m) /\ gm_args_ok m = true /\
             (allow = [] \/ In (lcfirst (gm_name m)) allow)).
Proof.
  unfold register. destruct (forallb _ ms); [|discriminate]. intros [= <-].
  rewrite map_map. cbn [fst]. rewrite in_map_iff. split.
  - intros [m [Hn Hin]]. apply filter_In in Hin as [Hin Hf]. apply andb_true_iff in Hf as [Ha Hw].
    exists m. repeat split; auto. destruct allow; [now left|right]. now apply smem_In.
  - intros [m (Hin & -> & Ha & Hw)]. exists m. split; auto. apply filter_In. split; auto.
    rewrite Ha. cbn. destruct allow as [|a al]; auto. destruct Hw as [Hw|Hw]; [discriminate|]. now apply smem_In.
Qed.

(* unknown names — unregistered, case variants, unexported or helper methods of the same
   object — get method-not-found and nothing is run *)
Theorem unknown_not_found reg name p : ~ In name (map fst reg) -> handle reg name p = HNotFound.
Proof. intros H. unfold handle. now rewrite (proj2 (lookup_none name reg) H). Qed.

(* the method runs iff the name is registered and the parameters are accepted *)
Theorem invoked_iff reg name p :
  handle reg name p = HInvoked <-> exists m, lookup name reg = Some m /\ parse_ok (gm_args m) p = true.
Proof.
  unfold handle. destruct (lookup name reg) as [m|].
  - destruct (parse_ok (gm_args m) p) eqn:H; split; try discriminate; eauto.
    intros [m' [[= <-] H']]. congruence.
  - split; [discriminate|intros [m [H _]]; discriminate].
Qed.

Lemma accepts_all_length ks js : accepts_all ks js = true -> (length js <= length ks)%nat.
Proof.
  revert ks. induction js as [|j js IH]; intros ks; [cbn; lia|].
  destruct ks as [|k ks]; cbn; [discriminate|]. intros H. apply andb_true_iff in H as [_ H]. apply IH in H. lia.
Qed.

(* too many, too few (for required parameters) or wrongly typed parameters: invalid-params,
   method not run *)
Theorem too_many_rejected reg name m js :
  lookup name reg = Some m -> (length (gm_args m) < length js)%nat -> handle reg name (PArray js) = HInvalidParams.
Proof.
  intros Hl Hlen. unfold handle. rewrite Hl. cbn.
  destruct (accepts_all (gm_args m) js) eqn:H; auto. apply accepts_all_length in H. lia.
Qed.

Lemma accepts_all_missing ks js :
  accepts_all ks js = true -> forallb is_ptr (skipn (length js) ks) = true.
Proof.
  revert ks. induction js as [|j js IH]; intros ks.
  - destruct ks; cbn; auto.
  - destruct ks as [|k ks]; cbn; [discriminate|]. intros H. apply andb_true_iff in H as [_ H]. now apply IH.
Qed.

Theorem too_few_rejected reg name m js k :
  lookup name reg = Some m -> nth_error (gm_args m) (length js) = Some k -> is_ptr k = false ->
  handle reg name (PArray js) = HInvalidParams.
Proof.
  intros Hl Hn Hk. unfold handle. rewrite Hl. cbn.
  destruct (accepts_all (gm_args m) js) eqn:H; auto. apply accepts_all_missing in H.
  revert Hn H. generalize (length js) as n. generalize (gm_args m) as ks.
  induction ks as [|x ks IH]; intros [|n]; cbn; try discriminate.
  - intros [= ->] H. rewrite Hk in H. discriminate.
  - apply IH.
Qed.

Theorem no_params_rejected reg name m k :
  lookup name reg = Some m -> In k (gm_args m) -> is_ptr k = false ->
  handle reg name PAbsent = HInvalidParams.
Proof.
  intros Hl Hin Hk. unfold handle. rewrite Hl. cbn.
  destruct (forallb is_ptr (gm_args m)) eqn:H; auto.
  rewrite forallb_forall in H. rewrite (H k Hin) in Hk. discriminate.
Qed.

Lemma accepts_all_nth ks js i k j :
  accepts_all ks js = true -> nth_error ks i = Some k -> nth_error js i = Some j -> accepts k j = true.
Proof.
  revert ks i. induction js as [|j0 js IH]; intros ks i; cbn.
  - destruct i; discriminate.
  - destruct ks as [|k0 ks]; [discriminate|]. intros H. apply andb_true_iff in H as [H0 H].
    destruct i; cbn; [intros [= <-] [= <-]; auto|]. now apply IH.
Qed.

Theorem wrong_type_rejected reg name m js i k j :
  lookup name reg = Some m -> nth_error (gm_args m) i = Some k -> nth_error js i = Some j ->
  accepts k j = false -> handle reg name (PArray js) = HInvalidParams.
Proof.
  intros Hl Hk Hj Ha. unfold handle. rewrite Hl. cbn.
  destruct (accepts_all (gm_args m) js) eqn:H; auto.
  rewrite (accepts_all_nth _ _ _ _ _ H Hk Hj) in Ha. discriminate.
Qed.

Theorem not_array_rejected reg name m : lookup name reg = Some m -> handle reg name PNotArray = HInvalidParams.
Proof. intros Hl. unfold handle. now rewrite Hl. Qed.
