(* Pool.v — executable model of the balance manager (pool/balance/perinterval.go), of the
   ledger-relevant part of VipnodePool.connect / Update (pool/service.go) and of the payment
   service (pool/payment/service.go), as compositions of contract-store steps.
   Clock reads are inputs: [now_s] is what the store reads, [now_b] what the balance manager
   reads.  Deposits (the on-chain side, proxied by the contract store) are an oracle
   [dep : wallet -> Z], changed only by a settlement.  No proofs in this file. *)
From VP Require Import Base Nonce Store.

Record pcfg := {
  p_X : Z; p_E : Z;                (* ExpireInterval, ExpireNonce *)
  p_price : Z; p_interval : Z;     (* CreditPerInterval, Interval (ns) *)
  p_min : option Z;                (* MinBalance *)
  p_wmin : option Z;               (* WithdrawMin *)
  p_fee : Z;                       (* withdraw fee (0 = none) *)
  p_settle_enabled : bool
}.

(* time.Time.Sub saturates *)
Definition maxdur : Z := 9223372036854775807.
Definition sat64 (z : Z) : Z := if maxdur <? z then maxdur else if z <? - maxdur - 1 then - maxdur - 1 else z.

Definition interval_credit (cfg : pcfg) (now_b last : Z) : Z :=
  sat64 (now_b - last) * p_price cfg / p_interval cfg.

Definition deposits := amap Z.
Definition dep_of (dep : deposits) (a : N) : Z :=
  if N.eqb a 0 then 0 else match aget a dep with Some d => d | None => 0 end.
(* spendable balance as the balance store proxy reports it: deposit of the balance's wallet + credit *)
Definition spendable (dep : deposits) (b : balance) : Z := dep_of dep (b_acct b) + b_credit b.

Inductive pres :=
| PBal (acct : N) (credit deposit : Z)
| PLow (current : Z)
| PCfgErr
| PStoreErr (e : err)
| POk
| PPaid (amount : Z)
| PBelowMin (bal : Z)
| PSettleFailed
| PDisabled.

Definition get_bal (cfg : pcfg) (dep : deposits) (st : sstate) (i : N) : pres :=
  if registered st i then
    let b := node_bal st i in PBal (b_acct b) (b_credit b) (dep_of dep (b_acct b))
  else PStoreErr EUnregistered.

(* credit each active peer; only credits that succeeded are charged *)
Fixpoint credit_peers (cfg : pcfg) (st : sstate) (peers : list N) (c : Z) : sstate * Z :=
  match peers with
  | [] => (st, 0)
  | q :: rest =>
      let '(st1, r) := sstep (p_X cfg) (p_E cfg) 0 st (AddNodeBal q c) in
      let '(st2, tot) := credit_peers cfg st1 rest c in
      (st2, match r with ROk => c + tot | _ => tot end)
  end.

(* payPerInterval.OnUpdate (node = record before the keep-alive, peers = active set after it) *)
Definition on_update (cfg : pcfg) (dep : deposits) (now_b : Z) (st : sstate) (nd : node) (peers : list N)
  : sstate * pres :=
  if n_host nd then (st, get_bal cfg dep st (n_id nd))
  else if (p_interval cfg <=? 0) || (p_price cfg =? 0) then (st, PCfgErr)
  else
    let c := interval_credit cfg now_b (n_seen nd) in
    if c =? 0 then (st, get_bal cfg dep st (n_id nd))
    else
      let '(st1, tot) := credit_peers cfg st peers c in
      let '(st2, r) := sstep (p_X cfg) (p_E cfg) 0 st1 (AddNodeBal (n_id nd) (- tot)) in
      match r with
      | ROk =>
          match get_bal cfg dep st2 (n_id nd) with
          | PBal a cr d =>
              match p_min cfg with
              | Some m => if d + cr <? m then (st2, PLow (d + cr)) else (st2, PBal a cr d)
              | None => (st2, PBal a cr d)
              end
          | other => (st2, other)
          end
      | RErr e => (st2, PStoreErr e)
      | _ => (st2, PStoreErr EOther)
      end.

(* payPerInterval.OnClient *)
Definition on_client (cfg : pcfg) (dep : deposits) (st : sstate) (nd : node) : pres :=
  match p_min cfg with
  | None => POk
  | Some m =>
      if n_host nd then POk
      else match get_bal cfg dep st (n_id nd) with
           | PBal a cr d => if d + cr <? m then PLow (d + cr) else POk
           | other => other
           end
  end.

(* VipnodePool.connect after verification: store the record, then the balance check *)
Definition pool_connect (cfg : pcfg) (dep : deposits) (st : sstate) (nd : node) : sstate * pres :=
  let '(st1, r) := sstep (p_X cfg) (p_E cfg) (n_seen nd) st (SetNode nd) in
  match r with
  | ROk => (st1, on_client cfg dep st1 nd)
  | RErr e => (st1, PStoreErr e)
  | _ => (st1, PStoreErr EOther)
  end.

Record update_out := {
  uo_res : pres;                 (* PBal = the reply's balance *)
  uo_invalid : list N;           (* InvalidPeers *)
  uo_active : list N;            (* ids behind ActivePeers *)
  uo_disconnect : list N         (* hosts asked to disconnect the client (low-balance cut-off) *)
}.

(* VipnodePool.Update after verification.  [connected] = hosts with a live registry entry. *)
Definition pool_update (cfg : pcfg) (dep : deposits) (connected : list N)
           (now_s now_b : Z) (st : sstate) (i : N) (reported : list N) (blk : N)
  : sstate * update_out :=
  match aget i (s_nodes st) with
  | None => (st, {| uo_res := PStoreErr EUnregistered; uo_invalid := []; uo_active := []; uo_disconnect := [] |})
  | Some before =>
      let '(st1, r1) := sstep (p_X cfg) (p_E cfg) now_s st (UpdatePeers i reported blk) in
      let invalid := match r1 with RIds l => l | _ => [] end in
      let active := akeys (peers_of st1 i) in
      let '(st2, res) := on_update cfg dep now_b st1 before active in
      let disc := match res with
                  | PLow _ => filter (fun q => memb q connected) active
                  | _ => []
                  end in
      (st2, {| uo_res := res; uo_invalid := invalid; uo_active := active; uo_disconnect := disc |})
  end.

(* PaymentService.AddNode after verification *)
Definition pay_add_node (cfg : pcfg) (st : sstate) (w i : N) : sstate * pres :=
  let '(st1, r) := sstep (p_X cfg) (p_E cfg) 0 st (AddAcctNode w i) in
  match r with ROk => (st1, POk) | RErr e => (st1, PStoreErr e) | _ => (st1, PStoreErr EOther) end.

(* PaymentService.Withdraw after verification; [settle_ok] is the settlement's outcome.
   A successful settlement pays deposit + credit - fee, sets the on-chain deposit to 0 and
   removes the settled credit from the ledger. *)
Definition pay_withdraw (cfg : pcfg) (dep : deposits) (st : sstate) (w : N) (settle_ok : bool)
  : sstate * deposits * pres :=
  if negb (p_settle_enabled cfg) then (st, dep, PDisabled)
  else
    let b := acct_bal st w in
    let tot := dep_of dep w + b_credit b in
    match p_wmin cfg with
    | Some m => if tot <? m then (st, dep, PBelowMin tot) else
        if settle_ok then
          (fst (sstep (p_X cfg) (p_E cfg) 0 st (AddAcctBal w (- b_credit b))), aset w 0 dep, PPaid (tot - p_fee cfg))
        else (st, dep, PSettleFailed)
    | None =>
        if settle_ok then
          (fst (sstep (p_X cfg) (p_E cfg) 0 st (AddAcctBal w (- b_credit b))), aset w 0 dep, PPaid (tot - p_fee cfg))
        else (st, dep, PSettleFailed)
    end.

(* ---------- pool operations as one step function (ledger-relevant API) ---------- *)
Inductive pop :=
| OConnect (nd : node)                                     (* n_seen nd = the LastSeen stored *)
| OUpdate (i : N) (reported : list N) (blk : N) (now_s now_b : Z)
| OAddNode (w i : N)
| OWithdraw (w : N) (settle_ok : bool)
| ODeposit (w : N) (amount : Z)                            (* on-chain deposit (outside the pool) *)
| OAdvance (d : Z)
| ORefused                                                 (* any request refused by verification *)
| OPeerRequest.                                            (* peer request: reads only *)

Record pstate := { ps_store : sstate; ps_dep : deposits; ps_connected : list N }.

Inductive pout :=
| OutRes (r : pres)
| OutUpdate (u : update_out).

Definition pstep (cfg : pcfg) (s : pstate) (o : pop) : pstate * pout :=
  let st := ps_store s in
  match o with
  | OConnect nd =>
      let '(st', r) := pool_connect cfg (ps_dep s) st nd in
      ({| ps_store := st'; ps_dep := ps_dep s;
          ps_connected := if n_host nd then n_id nd :: ps_connected s else ps_connected s |}, OutRes r)
  | OUpdate i reported blk now_s now_b =>
      let '(st', u) := pool_update cfg (ps_dep s) (ps_connected s) now_s now_b st i reported blk in
      ({| ps_store := st'; ps_dep := ps_dep s; ps_connected := ps_connected s |}, OutUpdate u)
  | OAddNode w i =>
      let '(st', r) := pay_add_node cfg st w i in
      ({| ps_store := st'; ps_dep := ps_dep s; ps_connected := ps_connected s |}, OutRes r)
  | OWithdraw w ok =>
      let '(st', dep', r) := pay_withdraw cfg (ps_dep s) st w ok in
      ({| ps_store := st'; ps_dep := dep'; ps_connected := ps_connected s |}, OutRes r)
  | ODeposit w amount =>
      ({| ps_store := st; ps_dep := aset w (dep_of (ps_dep s) w + amount) (ps_dep s);
          ps_connected := ps_connected s |}, OutRes POk)
  | OAdvance d =>
      ({| ps_store := fst (sstep (p_X cfg) (p_E cfg) 0 st (Advance d)); ps_dep := ps_dep s;
          ps_connected := ps_connected s |}, OutRes POk)
  | ORefused => (s, OutRes POk)
  | OPeerRequest => (s, OutRes POk)
  end.

Fixpoint prun (cfg : pcfg) (s : pstate) (ops : list pop) : pstate :=
  match ops with [] => s | o :: rest => prun cfg (fst (pstep cfg s o)) rest end.

Definition ps0 : pstate := {| ps_store := s0; ps_dep := []; ps_connected := [] |}.
