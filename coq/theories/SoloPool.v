(* SoloPool.v — a keep-alive program run alone IS the pool model's Update (C10).
   SerialFull.keepalives_serialisable compares an interleaving with the one-at-a-time execution
   of the request programs; the pool-level correspondence (CheckPool) validates [Pool.pool_update]
   against the real pool.  This file closes the gap between the two: running
   [Conc.update_prog] alone, every action reading the store clock [now_s], ends in exactly the
   store state [pool_update] computes. *)
From Coq Require Import Permutation.
From VP Require Import Base Nonce Store StoreProofs Pool Conc SerialProofs SerialFull.

Section Solo.
  Variable cfg : pcfg.
  Let X := p_X cfg.
  Let E := p_E cfg.

  Definition solo (now : Z) (st : sstate) (p : prog) (k : nat) : conf :=
    run_sched X E {| c_st := st; c_thr := [p] |} (repeat (0%nat, now) k).

  Lemma solo_S now st o k n :
    solo now st (Call o k) (S n) = solo now (fst (sstep X E now st o)) (k (snd (sstep X E now st o))) n.
  Proof.
    unfold solo. cbn [repeat run_sched fold_left].
    change (fold_left (sched_step X E) ?l ?c) with (run_sched X E c l).
    now rewrite (solo_step X E st _ now o k eq_refl).
  Qed.

  Lemma solo_done now st s n : solo now st (Done s) n = {| c_st := st; c_thr := [Done s] |}.
  Proof. unfold solo. induction n as [|n IH]; cbn [repeat run_sched fold_left]; auto. Qed.

  (* balance actions do not read the clock *)
  Lemma addbal_now now st q c : sstep X E now st (AddNodeBal q c) = sstep X E 0 st (AddNodeBal q c).
  Proof. reflexivity. Qed.
  Lemma getbal_now now st q : sstep X E now st (GetNodeBal q) = sstep X E 0 st (GetNodeBal q).
  Proof. reflexivity. Qed.

  Lemma registered_add now st q c j : registered (fst (sstep X E now st (AddNodeBal q c))) j = registered st j.
  Proof. destruct (addnodebal_np X E now st q c) as [[Hn _] _]. unfold registered. now rewrite Hn. Qed.

  (* crediting an unregistered peer is refused and changes nothing: crediting the tracked ids
     and crediting the records found for them are the same *)
  Lemma credit_filter c : forall l st,
    credit_peers cfg st l c = credit_peers cfg st (filter (registered st) l) c.
  Proof.
    induction l as [|q r IH]; intros st; cbn [filter credit_peers]; auto.
    destruct (registered st q) eqn:Hq.
    - cbn [credit_peers]. fold X E.
      destruct (sstep X E 0 st (AddNodeBal q c)) as [st1 r1] eqn:Hs.
      assert (Hf : filter (registered st1) r = filter (registered st) r).
      { apply filter_ext. intros j. replace st1 with (fst (sstep X E 0 st (AddNodeBal q c))) by now rewrite Hs.
        apply registered_add. }
      rewrite (IH st1), Hf. reflexivity.
    - fold X E. assert (Hs : sstep X E 0 st (AddNodeBal q c) = (st, RErr EUnregistered)) by (cbn; now rewrite Hq).
      rewrite Hs. rewrite (IH st). destruct (credit_peers cfg st (filter (registered st) r) c); reflexivity.
  Qed.

  Lemma act_of_filter st i : NodeKeys st -> act_of st i = filter (registered st) (akeys (peers_of st i)).
  Proof.
    intros HK. unfold act_of, nodes_of. induction (akeys (peers_of st i)) as [|q r IH]; cbn [flat_map filter map]; auto.
    rewrite map_app, IH. unfold registered at 2, amem. destruct (aget q (s_nodes st)) as [nd|] eqn:Hq; cbn [map app]; auto.
    now rewrite (HK _ _ Hq).
  Qed.

  (* the credit loop as a program = credit_peers *)
  Lemma credit_solo now c K : forall peers st tot,
    exists n, forall m,
      solo now st (credit_prog peers c tot K) (n + m) =
      solo now (fst (credit_peers cfg st peers c)) (K (tot + snd (credit_peers cfg st peers c))) m.
  Proof.
    induction peers as [|q r IH]; intros st tot.
    - exists 0%nat. intros m. cbn [credit_prog credit_peers fst snd plus]. now rewrite Z.add_0_r.
    - cbn [credit_prog credit_peers]. fold X E.
      destruct (sstep X E 0 st (AddNodeBal q c)) as [st1 r1] eqn:Hs.
      destruct (IH st1 (match r1 with ROk => tot + c | _ => tot end)) as [n Hn].
      exists (S n). intros m. cbn [plus]. rewrite solo_S, addbal_now, Hs. cbn [fst snd]. rewrite Hn.
      destruct (credit_peers cfg st1 r c) as [st2 t2]. cbn [fst snd].
      destruct r1; f_equal; f_equal; lia.
  Qed.

  Definition fin (c : conf) : Prop := forallb finished (c_thr c) = true.

  Lemma read_back_solo now st i : fin (solo now st (read_back i) 1) /\ c_st (solo now st (read_back i) 1) = st.
  Proof. unfold read_back. rewrite solo_S, solo_done. cbn [c_st c_thr]. split; [reflexivity|apply getnodebal_same]. Qed.

  (* the balance manager's part *)
  Lemma on_update_solo dep now now_b st nd l :
    exists n, fin (solo now st (on_update_prog cfg now_b nd l) n) /\
              c_st (solo now st (on_update_prog cfg now_b nd l) n) = fst (on_update cfg dep now_b st nd l).
  Proof.
    unfold on_update_prog, on_update.
    destruct (n_host nd). { exists 1%nat. destruct (read_back_solo now st (n_id nd)) as [A B]. split; [exact A|exact B]. }
    destruct ((p_interval cfg <=? 0) || (p_price cfg =? 0)). { exists 0%nat. rewrite solo_done. split; reflexivity. }
    destruct (interval_credit cfg now_b (n_seen nd) =? 0). { exists 1%nat. destruct (read_back_solo now st (n_id nd)) as [A B]. split; [exact A|exact B]. }
    set (c := interval_credit cfg now_b (n_seen nd)).
    set (K := fun tot : Z => Call (AddNodeBal (n_id nd) (- tot))
                (fun r => match r with ROk => read_back (n_id nd) | _ => Done 0 end)).
    destruct (credit_solo now c K l st 0) as [n Hn].
    destruct (credit_peers cfg st l c) as [st1 tot] eqn:Hc. cbn [fst snd] in Hn. rewrite Z.add_0_l in Hn.
    fold X E. destruct (sstep X E 0 st1 (AddNodeBal (n_id nd) (- tot))) as [st2 r] eqn:Hs.
    assert (Hst : c_st (solo now st1 (K tot) 2) = st2 /\ fin (solo now st1 (K tot) 2)).
    { unfold K. rewrite solo_S, addbal_now, Hs. cbn [fst snd].
      destruct r; try (rewrite solo_done; split; reflexivity).
      destruct (read_back_solo now st2 (n_id nd)) as [A B]. split; [exact B|exact A]. }
    exists (n + 2)%nat. rewrite Hn. destruct Hst as [A B]. split; [exact B|]. rewrite A.
    destruct r; try reflexivity.
    destruct (get_bal cfg dep st2 (n_id nd)); try reflexivity.
    destruct (p_min cfg); [|reflexivity]. destruct (deposit + credit <? z); reflexivity.
  Qed.

  (* the whole keep-alive *)
  Theorem solo_update_is_pool_update dep connected now_s now_b st i reported blk :
    NodeKeys st ->
    exists n, fin (solo now_s st (update_prog cfg i reported blk now_b) n) /\
              c_st (solo now_s st (update_prog cfg i reported blk now_b) n) =
              fst (pool_update cfg dep connected now_s now_b st i reported blk).
  Proof.
    intros HK. unfold update_prog, pool_update.
    destruct (aget i (s_nodes st)) as [b0|] eqn:Hb0.
    2:{ exists 1%nat. rewrite solo_S. cbn [sstep]. rewrite Hb0. cbn [fst snd]. rewrite solo_done. split; reflexivity. }
    fold X E.
    destruct (sstep X E now_s st (UpdatePeers i reported blk)) as [st1 r1] eqn:Hs1.
    assert (Hr1 : exists g, r1 = RIds g).
    { revert Hs1. cbn [sstep]. rewrite Hb0. intros [= <- <-]. eauto. }
    destruct Hr1 as [g ->].
    assert (HK1 : NodeKeys st1).
    { replace st1 with (fst (sstep X E now_s st (UpdatePeers i reported blk))) by now rewrite Hs1. now apply NodeKeys_step. }
    assert (Hreg1 : registered st1 i = true).
    { replace st1 with (fst (sstep X E now_s st (UpdatePeers i reported blk))) by now rewrite Hs1.
      apply registered_mono. unfold registered, amem. now rewrite Hb0. }
    destruct (on_update_solo dep now_s now_b st1 b0 (act_of st1 i)) as [n [Hf Hst]].
    exists (S (S (S n))).
    rewrite solo_S. cbn [sstep]. rewrite Hb0. cbn [fst snd].
    rewrite solo_S, Hs1. cbn [fst snd].
    rewrite solo_S. cbn [sstep]. rewrite Hreg1. cbn [fst snd]. fold (act_of st1 i).
    split; [exact Hf|]. rewrite Hst.
    assert (Hou : fst (on_update cfg dep now_b st1 b0 (act_of st1 i)) =
                  fst (on_update cfg dep now_b st1 b0 (akeys (peers_of st1 i)))).
    { unfold on_update. rewrite (credit_filter _ (akeys (peers_of st1 i)) st1), <- (act_of_filter st1 i HK1). reflexivity. }
    rewrite Hou. destruct (on_update cfg dep now_b st1 b0 (akeys (peers_of st1 i))). reflexivity.
  Qed.

  (* once the program has finished, further turns change nothing *)
  Lemma solo_succ now st p k : solo now st p (S k) = sched_step X E (solo now st p k) (0%nat, now).
  Proof.
    unfold solo. replace (repeat (0%nat, now) (S k)) with (repeat (0%nat, now) k ++ [(0%nat, now)]).
    - unfold run_sched. now rewrite fold_left_app.
    - induction k as [|k IH]; cbn [repeat app]; auto. now rewrite IH.
  Qed.
  Lemma solo_thr now st p k : exists q, c_thr (solo now st p k) = [q].
  Proof.
    induction k as [|k [q Hq]]; [exists p; reflexivity|].
    rewrite solo_succ. unfold sched_step. rewrite Hq. cbn [nth_error].
    destruct q as [s|o kk]; [exists (Done s); now rewrite Hq|].
    destruct (sstep X E now (c_st (solo now st p k)) o). cbn. eauto.
  Qed.
  Lemma solo_stable now st p k : fin (solo now st p k) -> forall m, solo now st p (k + m) = solo now st p k.
  Proof.
    intros Hf. induction m as [|m IH]; [now rewrite Nat.add_0_r|].
    rewrite Nat.add_succ_r, solo_succ, IH. destruct (solo_thr now st p k) as [q Hq].
    unfold fin in Hf. rewrite Hq in Hf. cbn in Hf. destruct q; [|discriminate].
    unfold sched_step. rewrite Hq. reflexivity.
  Qed.
  Lemma solo_fin_unique now st p k1 k2 :
    fin (solo now st p k1) -> fin (solo now st p k2) -> solo now st p k1 = solo now st p k2.
  Proof.
    intros H1 H2. destruct (Nat.le_ge_cases k1 k2) as [H|H].
    - replace k2 with (k1 + (k2 - k1))%nat by lia. symmetry. now apply solo_stable.
    - replace k1 with (k2 + (k1 - k2))%nat by lia. now apply solo_stable.
  Qed.

  Lemma NodeKeys_solo now st p k : NodeKeys st -> NodeKeys (c_st (solo now st p k)).
  Proof.
    intros HK. induction k as [|k IH]; [exact HK|].
    rewrite solo_succ. destruct (solo_thr now st p k) as [q Hq]. unfold sched_step. rewrite Hq. cbn [nth_error].
    destruct q as [s|o kk]; [exact IH|].
    pose proof (NodeKeys_step X E now (c_st (solo now st p k)) o IH) as H.
    destruct (sstep X E now (c_st (solo now st p k)) o). exact H.
  Qed.

  (* one-at-a-time execution of keep-alives, as the pool model computes it *)
  Fixpoint pool_run (dep : deposits) (connected : list N) (st : sstate) (us : list ureq) (order : list (nat * Z)) : sstate :=
    match order with
    | [] => st
    | (t, now) :: r =>
        match nth_error us t with
        | Some u => pool_run dep connected
                      (fst (pool_update cfg dep connected now (u_nowb u) st (u_id u) (u_rep u) (u_blk u))) us r
        | None => pool_run dep connected st us r
        end
    end.

  Theorem ser_exec_is_pool_run dep connected us st order st' :
    ser_exec X E cfg us st order st' -> NodeKeys st -> st' = pool_run dep connected st us order.
  Proof.
    induction 1 as [st|st t now u k order st' Hu Hf Hse IH]; intros HK; [reflexivity|].
    cbn [pool_run]. rewrite Hu.
    destruct (solo_update_is_pool_update dep connected now (u_nowb u) st (u_id u) (u_rep u) (u_blk u) HK) as [n [Hfn Hst]].
    fold (uprog cfg u) in Hfn, Hst. fold (solo now st (uprog cfg u) k) in Hf, Hse, IH.
    rewrite <- Hst, <- (solo_fin_unique now st (uprog cfg u) k n Hf Hfn).
    apply IH. now apply NodeKeys_solo.
  Qed.
End Solo.

(* C10, stated against the pool model the correspondence validates: every complete interleaving
   of keep-alives of pairwise distinct nodes leaves the node records, peer sets, links and
   balances that applying [Pool.pool_update] to the requests one at a time leaves, in the order
   of their UpdatePeers actions. *)
Theorem keepalives_serialisable_pool cfg dep connected st0 us sch :
  NoDup (map u_id us) -> NodeKeys st0 -> (forall u, In u us -> registered st0 (u_id u) = true) ->
  let c' := run_sched (p_X cfg) (p_E cfg) {| c_st := st0; c_thr := map (uprog cfg) us |} sch in
  forallb finished (c_thr c') = true ->
  exists order,
    Permutation (map fst order) (seq 0 (length us)) /\
    s_nodes (pool_run cfg dep connected st0 us order) = s_nodes (c_st c') /\
    s_peers (pool_run cfg dep connected st0 us order) = s_peers (c_st c') /\
    s_link (pool_run cfg dep connected st0 us order) = s_link (c_st c') /\
    forall j, b_credit (node_bal (pool_run cfg dep connected st0 us order) j) = b_credit (node_bal (c_st c') j).
Proof.
  intros Hnd HK Hreg c' Hfin.
  destruct (keepalives_serialisable cfg (p_X cfg) (p_E cfg) st0 us sch Hnd HK Hreg Hfin) as (order & st_ser & Hp & Hse & H).
  exists order. split; [exact Hp|].
  rewrite <- (ser_exec_is_pool_run cfg dep connected us st0 order st_ser Hse HK). exact H.
Qed.

(* non-vacuity: the interleaved run of SerialFull's example and the pool model applied to the two
   requests one after the other agree on what the host earned and the first client paid *)
Example keepalives_serialisable_pool_example :
  let cfg := sx_cfg in
  let us := [{| u_id := 2; u_rep := [1%N]; u_blk := 0; u_nowb := 61 |}; {| u_id := 3; u_rep := [1%N]; u_blk := 0; u_nowb := 62 |}]%N in
  let st := srun 120 900 s0 [(0, SetNode (sx_node 1%N true)); (0, SetNode (sx_node 2%N false)); (0, SetNode (sx_node 3%N false));
                             (0, UpdatePeers 2%N [1%N] 0%N); (0, UpdatePeers 3%N [1%N] 0%N)] in
  let st_ser := pool_run cfg [] [] st us [(0%nat, 61); (1%nat, 61)] in
  b_credit (node_bal st_ser 1%N) = 2049 /\ b_credit (node_bal st_ser 2%N) = -1016.
Proof. vm_compute. split; reflexivity. Qed.
