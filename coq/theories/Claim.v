(* Claim.v — starting an agent under concurrent callers (agent/agent.go Start/serveUpdates/Stop):
   Start claims the agent (test-and-set of [started] under the agent's mutex), registers with the
   pool without the mutex (the pool may be slow, or refuse), and either starts the keep-alive loop
   or gives the claim back.  [atomic] selects the repaired shape (test and set in one critical
   section) or the split one (test in one critical section, set in a later one).
   No proofs in this file. *)
From VP Require Import Base.

Inductive cphase :=
| CIdle            (* Start not yet called *)
| CChecked         (* split shape only: saw started = false, has not set it yet *)
| CClaimed         (* owns the claim, registering with the pool *)
| CRefused         (* returned ErrAlreadyStarted *)
| CFailed          (* registration failed: returned the error, claim given back *)
| CRunning.        (* returned nil: its keep-alive loop is running *)

Record cst := { c_started : bool; c_loops : nat; c_calls : amap cphase }.
Definition cst0 : cst := {| c_started := false; c_loops := 0; c_calls := [] |}.
Definition cphase_of (s : cst) (t : N) : cphase :=
  match aget t (c_calls s) with Some p => p | None => CIdle end.

Inductive cop :=
| KEnter (t : N)     (* first critical section of Start *)
| KSet (t : N)       (* split shape only: the later critical section that sets started *)
| KFail (t : N)      (* the pool refuses the registration (or the first keep-alive fails) *)
| KOk (t : N)        (* registration succeeded: the loop is started *)
| KStop.             (* Stop: a running loop takes the signal, ends, and clears started *)

Definition setp (s : cst) (t : N) (p : cphase) : amap cphase := aset t p (c_calls s).

Definition cstep (atomic : bool) (s : cst) (o : cop) : option cst :=
  match o with
  | KEnter t =>
      match cphase_of s t with
      | CIdle =>
          if c_started s then Some {| c_started := true; c_loops := c_loops s; c_calls := setp s t CRefused |}
          else if atomic then Some {| c_started := true; c_loops := c_loops s; c_calls := setp s t CClaimed |}
          else Some {| c_started := false; c_loops := c_loops s; c_calls := setp s t CChecked |}
      | _ => None
      end
  | KSet t =>
      match cphase_of s t with
      | CChecked => Some {| c_started := true; c_loops := c_loops s; c_calls := setp s t CClaimed |}
      | _ => None
      end
  | KFail t =>
      match cphase_of s t with
      | CClaimed => Some {| c_started := false; c_loops := c_loops s; c_calls := setp s t CFailed |}
      | _ => None
      end
  | KOk t =>
      match cphase_of s t with
      | CClaimed => Some {| c_started := c_started s; c_loops := S (c_loops s); c_calls := setp s t CRunning |}
      | _ => None
      end
  | KStop =>
      match c_loops s with
      | S n => Some {| c_started := false; c_loops := n; c_calls := c_calls s |}
      | O => None      (* Stop blocks: nobody takes the signal *)
      end
  end.

Fixpoint crun (atomic : bool) (s : cst) (ops : list cop) : cst :=
  match ops with
  | [] => s
  | o :: r => match cstep atomic s o with
              | Some s' => crun atomic s' r
              | None => crun atomic s r
              end
  end.

Definition claimed (s : cst) (t : N) : bool := match cphase_of s t with CClaimed => true | _ => false end.
Definition claimers (s : cst) : list N := filter (claimed s) (akeys (c_calls s)).
