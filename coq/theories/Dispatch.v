(* Dispatch.v — jsonrpc2.Server: Register naming and allow-list (jsonrpc2/server.go:38-78,
   method.go Methods), Handle (server.go:103-156) and parsePositionalArguments
   (borrowed_eth.go:38-75) over JSON value kinds.  No proofs in this file. *)
From Coq Require Import String Ascii.
From VP Require Import Base.
Open Scope string_scope.

(* Go parameter kinds, as encoding/json sees them *)
Inductive kind := KString | KInt | KInt64 | KUint64 | KBool | KFloat | KStruct | KSlice | KMap | KPtr | KIface.
(* JSON values by the distinctions encoding/json makes when decoding into those kinds *)
Inductive jkind := JString | JInt (fits64 : bool) (negative : bool) | JFloat | JBool | JNull | JObject | JArray.

Definition is_ptr (k : kind) : bool := match k with KPtr => true | _ => false end.

(* json.Unmarshal into a fresh value of the kind: null is a no-op for every kind *)
Definition accepts (k : kind) (j : jkind) : bool :=
  match j, k with
  | JNull, _ => true
  | _, KIface => true
  | JString, KString => true
  | JInt fits _, (KInt | KInt64) => fits
  | JInt fits neg, KUint64 => fits && negb neg
  | JInt _ _, KFloat => true
  | JFloat, KFloat => true
  | JBool, KBool => true
  | JObject, (KStruct | KMap) => true
  | JArray, KSlice => true
  | JObject, KPtr => true        (* pointer to struct *)
  | _, _ => false
  end.

Record gmethod := {
  gm_name : string;          (* Go method name *)
  gm_args : list kind;       (* positional parameters (context excluded) *)
  gm_args_ok : bool;         (* every parameter type is exported or builtin *)
  gm_ret_ok : bool           (* return layout is (T), (error) or (T, error) *)
}.

Definition lower (c : ascii) : ascii :=
  let n := nat_of_ascii c in if (65 <=? n)%nat && (n <=? 90)%nat then ascii_of_nat (n + 32) else c.
Definition lcfirst (s : string) : string :=
  match s with EmptyString => EmptyString | String c r => String (lower c) r end.

Fixpoint smem (x : string) (l : list string) : bool :=
  match l with [] => false | y :: r => String.eqb x y || smem x r end.

(* Register(prefix, receiver, onlyMethods...): None = the whole registration is refused *)
Definition register (prefix : string) (ms : list gmethod) (allow : list string) : option (list (string * gmethod)) :=
  if forallb (fun m => negb (gm_args_ok m) || gm_ret_ok m) ms then
    Some (map (fun m => (prefix ++ lcfirst (gm_name m), m))
              (filter (fun m => gm_args_ok m &&
                                match allow with [] => true | _ => smem (lcfirst (gm_name m)) allow end) ms))
  else None.

Fixpoint lookup (name : string) (reg : list (string * gmethod)) : option gmethod :=
  match reg with
  | [] => None
  | (n, m) :: r => if String.eqb name n then Some m else lookup name r
  end.

Inductive params := PAbsent | PNotArray | PArray (l : list jkind).

Fixpoint accepts_all (ks : list kind) (js : list jkind) : bool :=
  match js, ks with
  | [], _ => forallb is_ptr ks                     (* missing trailing arguments must be optional *)
  | _ :: _, [] => false                            (* too many arguments *)
  | j :: js', k :: ks' => accepts k j && accepts_all ks' js'
  end.

Definition parse_ok (ks : list kind) (p : params) : bool :=
  match p with
  | PAbsent => forallb is_ptr ks     (* no params (absent or null) = empty array *)
  | PNotArray => false
  | PArray js => accepts_all ks js
  end.

Inductive hres := HNotFound | HInvalidParams | HInvoked.

Definition handle (reg : list (string * gmethod)) (name : string) (p : params) : hres :=
  match lookup name reg with
  | None => HNotFound
  | Some m => if parse_ok (gm_args m) p then HInvoked else HInvalidParams
  end.
