(* Check12.v — correspondence predicate for store-level histories (C12, C11, C13):
   run the contract model on the operations a real driver executed and compare every result. *)
From VP Require Import Base Nonce Store.

Inductive ores :=
| OOk | OErr (e : err)
| ONode (nd : node)
| ONodes (ids : list N)
| OIds (ids : list N)
| OBal (acct : N) (credit : Z)
| OStats (s : stats).

Definition err_eqb (a b : err) : bool :=
  match a, b with
  | EUnregistered, EUnregistered | EMalformed, EMalformed | ENotAuthorized, ENotAuthorized
  | EInvalidNonce, EInvalidNonce | EOther, EOther => true
  | _, _ => false
  end.

Definition node_eqb (a b : node) : bool :=
  N.eqb (n_id a) (n_id b) && N.eqb (n_uri a) (n_uri b) && Z.eqb (n_seen a) (n_seen b) &&
  N.eqb (n_kind a) (n_kind b) && Bool.eqb (n_host a) (n_host b) && N.eqb (n_payout a) (n_payout b) &&
  N.eqb (n_block a) (n_block b).

Definition stats_eqb (a b : stats) : bool :=
  Nat.eqb (st_active_hosts a) (st_active_hosts b) && Nat.eqb (st_total_hosts a) (st_total_hosts b) &&
  Nat.eqb (st_active_clients a) (st_active_clients b) && Nat.eqb (st_total_clients a) (st_total_clients b) &&
  N.eqb (st_latest_block a) (st_latest_block b) && Z.eqb (st_total_credit a) (st_total_credit b) &&
  Nat.eqb (st_trials a) (st_trials b).

Definition ids_eqb (a b : list N) : bool := list_eqb N.eqb (isort a) (isort b).

Definition res_match (r : sres) (o : ores) : bool :=
  match r, o with
  | ROk, OOk => true
  | RErr e, OErr e' => err_eqb e e'
  | RNode a, ONode b => node_eqb a b
  | RNodes l, ONodes ids => ids_eqb (map n_id l) ids
  | RHosts elig limit, ONodes ids =>
      nodupb ids && forallb (fun i => memb i (map n_id elig)) ids &&
      Nat.eqb (length ids)
              (if limit <=? 0 then length elig else if Z.of_nat (length elig) <=? limit then length elig else Z.to_nat limit)
  | RIds l, OIds ids => ids_eqb l ids
  | RBal b, OBal a c => N.eqb (b_acct b) a && Z.eqb (b_credit b) c
  | RStats s, OStats s' => stats_eqb s s'
  | _, _ => false
  end.

Record c12_case := { c12_X : Z; c12_E : Z; c12_ops : list (Z * sop * ores) }.

(* index of the first operation whose observed result differs from the model's, if any *)
Fixpoint first_diff (X E : Z) (st : sstate) (ops : list (Z * sop * ores)) (k : nat) : option nat :=
  match ops with
  | [] => None
  | (now, o, obs) :: rest =>
      let '(st', r) := sstep X E now st o in
      if res_match r obs then first_diff X E st' rest (S k) else Some k
  end.

Definition c12_check (c : c12_case) : bool :=
  match first_diff (c12_X c) (c12_E c) s0 (c12_ops c) 0 with None => true | Some _ => false end.
