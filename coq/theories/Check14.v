(* Check14.v — correspondence predicate for C14: a scripted trace of the routing LTS executed on
   a real jsonrpc2.Remote (manual codec) must leave every call in the phase the model predicts
   and the pending table at the predicted size. *)
From VP Require Import Base Routing.

Inductive ophase := OWaiting | OPayload (p : payload) | OCtxErr.

Record c14_case := {
  c14_limit : nat; c14_discard : nat;
  c14_trace : list lab;
  c14_calls : list (N * ophase);     (* observed final phase of every call started *)
  c14_pending : nat                  (* observed size of the pending table at the end *)
}.

Definition phase_match (m : option phase) (o : ophase) : bool :=
  match m, o with
  | Some (PWaiting _), OWaiting => true
  | Some (PDone (CPayload p)), OPayload q => N.eqb p q
  | Some (PDone CCtxErr), OCtxErr => true
  | _, _ => false
  end.

Definition c14_check (c : c14_case) : bool :=
  let s := rrun true (c14_limit c) (c14_discard c) rst0 (c14_trace c) in
  forallb (fun co => phase_match (aget (fst co) (r_calls s)) (snd co)) (c14_calls c) &&
  Nat.eqb (length (r_pending s)) (c14_pending c).

(* histories at the level of channel objects (Recycle.v): the events the harness forced on a real
   Remote, with what each call returned; the model (channels never handed to a second call) must be
   able to take every step, and must leave every call with the result observed *)
From VP Require Import Recycle.
Definition rres_eqb (a b : rres) : bool :=
  match a, b with RPayload p, RPayload q => N.eqb p q | RCtx, RCtx => true | _, _ => false end.
Inductive c14_any := C14Script (c : c14_case) | C14Chan (evs : list rcev) (results : list (N * rres)).
Definition c14_any_check (c : c14_any) : bool :=
  match c with
  | C14Script k => c14_check k
  | C14Chan evs results =>
      match rcrun PNoRecycle rc0 evs with
      | Some s => forallb (fun cr => match aget (fst cr) (rc_done s) with Some r => rres_eqb r (snd cr) | None => false end) results
      | None => false
      end
  end.
