(* Check14.v — correspondence predicate for C14: a scripted trace of the routing LTS executed on
   a real jsonrpc2.Remote (manual codec) must leave every call in the phase the model predicts
   and the pending table at the predicted size. *)
From VP Require Import Base Routing.

Inductive ophase := OWaiting | OPayload (p : payload) | OCtxErr.

Record c14_case := {
  c14_limit : nat; c14_discard : nat;
  c14_trace : list lab;
  c14_calls : list (N * ophase);     (* observed final phase of every call started *)
  c14_pending : nat                  (* observed size of the pending table at the end *)
}.

Definition phase_match (m : option phase) (o : ophase) : bool :=
  match m, o with
  | Some (PWaiting _), OWaiting => true
  | Some (PDone (CPayload p)), OPayload q => N.eqb p q
  | Some (PDone CCtxErr), OCtxErr => true
  | _, _ => false
  end.

Definition c14_check (c : c14_case) : bool :=
  let s := rrun true (c14_limit c) (c14_discard c) rst0 (c14_trace c) in
  forallb (fun co => phase_match (aget (fst co) (r_calls s)) (snd co)) (c14_calls c) &&
  Nat.eqb (length (r_pending s)) (c14_pending c).
