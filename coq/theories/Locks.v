(* Locks.v — the keyed-lock bookkeeping used to serialise the requests of one key: the per-node
   update lock of the pool (pool/service.go lockUpdates: a map from node id to a mutex, looked up
   or created under the pool mutex, locked after the pool mutex is released, never removed) and,
   degenerately (one key, one mutex), the payment service's withdraw lock.  One key is modelled;
   distinct keys never share a mutex.  [del] selects the variant that removes the map entry when
   the lock is released.  No proofs in this file. *)
From VP Require Import Base.

Inductive tphase :=
| TIdle                 (* request verified, lock not yet looked up *)
| TRef (m : nat)        (* holds a reference to mutex m, waiting to lock it *)
| THold (m : nat)       (* inside the critical section *)
| TDone.

Record lst := {
  l_entry : option nat;       (* the map's entry for the key *)
  l_next : nat;               (* next fresh mutex *)
  l_held : list nat;          (* mutexes currently locked *)
  l_thr : amap tphase         (* threads (requests) by id; absent = TIdle *)
}.
Definition lst0 : lst := {| l_entry := None; l_next := 0; l_held := []; l_thr := [] |}.

Definition phase_of (s : lst) (t : N) : tphase :=
  match aget t (l_thr s) with Some p => p | None => TIdle end.

Inductive lop :=
| SLookup (t : N)     (* under the pool mutex: find or create the key's mutex *)
| SLock (t : N)       (* mutex.Lock() succeeds (the mutex was free) *)
| SUnlock (t : N).    (* the deferred unlock at the end of the request *)

Fixpoint remove_nat (m : nat) (l : list nat) : list nat :=
  match l with
  | [] => []
  | x :: r => if Nat.eqb x m then r else x :: remove_nat m r
  end.
Fixpoint mem_nat (m : nat) (l : list nat) : bool :=
  match l with
  | [] => false
  | x :: r => Nat.eqb x m || mem_nat m r
  end.

(* None: the step is not enabled *)
Definition lstep (del : bool) (s : lst) (o : lop) : option lst :=
  match o with
  | SLookup t =>
      match phase_of s t with
      | TIdle =>
          match l_entry s with
          | Some m => Some {| l_entry := l_entry s; l_next := l_next s; l_held := l_held s;
                              l_thr := aset t (TRef m) (l_thr s) |}
          | None => Some {| l_entry := Some (l_next s); l_next := S (l_next s); l_held := l_held s;
                            l_thr := aset t (TRef (l_next s)) (l_thr s) |}
          end
      | _ => None
      end
  | SLock t =>
      match phase_of s t with
      | TRef m => if mem_nat m (l_held s) then None
                  else Some {| l_entry := l_entry s; l_next := l_next s; l_held := m :: l_held s;
                               l_thr := aset t (THold m) (l_thr s) |}
      | _ => None
      end
  | SUnlock t =>
      match phase_of s t with
      | THold m => Some {| l_entry := if del then None else l_entry s; l_next := l_next s;
                           l_held := remove_nat m (l_held s); l_thr := aset t TDone (l_thr s) |}
      | _ => None
      end
  end.

Fixpoint lrun (del : bool) (s : lst) (ops : list lop) : lst :=
  match ops with
  | [] => s
  | o :: r => match lstep del s o with
              | Some s' => lrun del s' r
              | None => lrun del s r
              end
  end.

Definition holding (s : lst) (t : N) : bool :=
  match phase_of s t with THold _ => true | _ => false end.
Definition holders (s : lst) : list N := filter (holding s) (akeys (l_thr s)).
