(* Check20.v — correspondence predicate for C20. *)
From VP Require Import Base Life.

Definition lout_eqb (a b : lout) : bool :=
  match a, b with
  | RStartOk, RStartOk | RAlreadyStarted, RAlreadyStarted | RStartErr, RStartErr | RStopped, RStopped | RNone, RNone => true
  | RWait WNil, RWait WNil | RWait WErr, RWait WErr => true
  | RTick n, RTick m => Nat.eqb n m
  | _, _ => false
  end.

Record c20_case := {
  c20_ops : list (lop * lout);                 (* operations with what the real agent answered *)
  c20_intervals : list (Z * bool);             (* update intervals (ns) tried on the command line, accepted? *)
  c20_min : Z; c20_max : Z
}.

Fixpoint c20_run (s : lstate) (ops : list (lop * lout)) (k : nat) : option nat :=
  match ops with
  | [] => None
  | (o, ob) :: rest => let '(s', r) := lstep true s o in
                       if lout_eqb r ob then c20_run s' rest (S k) else Some k
  end.
Definition c20_check (c : c20_case) : bool :=
  match c20_run l0 (c20_ops c) 0 with None => true | Some _ => false end &&
  forallb (fun p => Bool.eqb (interval_ok (c20_min c) (c20_max c) (fst p)) (snd p)) (c20_intervals c).
Definition c20_diag (c : c20_case) : Z := match c20_run l0 (c20_ops c) 0 with None => -1 | Some k => Z.of_nat k end.

(* event histories at the grain of single keep-alives (Inflight.v): what the observer logged must
   be a history the lifecycle can produce *)
From VP Require Import Inflight.
Inductive c20_any := C20Life (c : c20_case) | C20Trace (evs : list iev).
Definition c20_any_check (c : c20_any) : bool :=
  match c with
  | C20Life k => c20_check k
  | C20Trace evs => match ifail false i0 evs 0 with None => true | Some _ => false end
  end.
Definition c20_any_diag (c : c20_any) : Z :=
  match c with
  | C20Life k => c20_diag k
  | C20Trace evs => match ifail false i0 evs 0 with None => -1 | Some k => Z.of_nat k end
  end.
