(* ConcProofs.v — for every schedule, the ledger total at quiescence is the initial total minus
   what completed withdrawals settled (C01 concurrent, C10 no-lost-update). *)
From VP Require Import Base Nonce Store StoreProofs Pool PoolProofs Conc.

Definition stable (P : sstate -> Prop) : Prop :=
  forall X E now st o, P st -> P (fst (sstep X E now st o)).

Section Balanced.
  Variables X E : Z.

  (* [balanced P acc p]: in any environment whose states satisfy the stable predicate P, thread p
     — whose actions so far moved the ledger by acc — ends having moved it by minus what it settled *)
  Inductive balanced : (sstate -> Prop) -> Z -> prog -> Prop :=
  | BDone (P : sstate -> Prop) s : balanced P (- s) (Done s)
  | BCall (P : sstate -> Prop) acc o k :
      (forall now st, Good st -> P st ->
         exists P', stable P' /\ P' (fst (sstep X E now st o)) /\
                    balanced P' (acc + ledger_delta st o) (k (snd (sstep X E now st o)))) ->
      balanced P acc (Call o k).

  Record ghost := { g_P : sstate -> Prop; g_acc : Z }.

  Definition thread_ok (st : sstate) (g : ghost) (p : prog) : Prop :=
    stable (g_P g) /\ g_P g st /\ balanced (g_P g) (g_acc g) p.

  Inductive all_ok (st : sstate) : list ghost -> list prog -> Prop :=
  | AO_nil : all_ok st [] []
  | AO_cons g p gs ps : thread_ok st g p -> all_ok st gs ps -> all_ok st (g :: gs) (p :: ps).

  Definition GI (T0 : Z) (c : conf) : Prop :=
    Good (c_st c) /\ exists gs, all_ok (c_st c) gs (c_thr c) /\ total (c_st c) = T0 + zsuml (map g_acc gs).

  Lemma all_ok_move st st' gs ps :
    (forall P, stable P -> P st -> P st') -> all_ok st gs ps -> all_ok st' gs ps.
  Proof.
    intros Hm H. induction H as [|g p gs ps Hg _ IH]; constructor; auto.
    destruct Hg as [Hs [Hp Hb]]. split; [|split]; auto. now apply Hm.
  Qed.

  Lemma step_threads now st o k st' r :
    Good st -> sstep X E now st o = (st', r) ->
    forall t thr gs,
    all_ok st gs thr -> nth_error thr t = Some (Call o k) ->
    exists gs', all_ok st' gs' (upd_nth t (k r) thr) /\
                zsuml (map g_acc gs') = zsuml (map g_acc gs) + ledger_delta st o.
  Proof.
    intros HI Hs. induction t as [|t IH]; intros thr gs Hok Hnth.
    - destruct thr as [|p0 ps]; [discriminate|]. injection Hnth as ->.
      inversion Hok as [|g p gs' ps' Hg Hrest]; subst. destruct Hg as [Hst [HP Hbal]].
      inversion Hbal as [|P acc o' k' Hk]; subst.
      destruct (Hk now st HI HP) as [P' [Hst' [HP' Hbal']]].
      rewrite Hs in HP', Hbal'. cbn [fst snd] in *.
      exists ({| g_P := P'; g_acc := g_acc g + ledger_delta st o |} :: gs'). split.
      + cbn [upd_nth]. constructor; [split; [|split]; auto|].
        apply (all_ok_move st); auto.
        intros Q HQ Hq. specialize (HQ X E now st o Hq). now rewrite Hs in HQ.
      + cbn [map zsuml g_acc]. lia.
    - destruct thr as [|p0 ps]; [discriminate|]. cbn [nth_error] in Hnth.
      inversion Hok as [|g p gs' ps' Hg Hrest]; subst.
      destruct (IH ps gs' Hrest Hnth) as [gs2 [Hok2 Htot2]].
      exists (g :: gs2). split.
      + cbn [upd_nth]. constructor; auto.
        destruct Hg as [Hst [HP Hb]]. split; [|split]; auto.
        specialize (Hst X E now st o HP). now rewrite Hs in Hst.
      + cbn [map zsuml]. lia.
  Qed.

  Lemma GI_step T0 c ev : GI T0 c -> GI T0 (sched_step X E c ev).
  Proof.
    destruct ev as [t now]. intros [HI [gs [Hok Htot]]]. unfold sched_step.
    destruct (nth_error (c_thr c) t) as [p|] eqn:Hnth; [|split; eauto].
    destruct p as [s|o k]; [split; eauto|].
    assert (Hstep_inv := Good_step X E now (c_st c) o HI).
    assert (Htotal := total_step X E now (c_st c) o (proj1 HI)).
    destruct (sstep X E now (c_st c) o) as [st' r] eqn:Hs.
    cbn [fst snd] in *. split; [exact Hstep_inv|]. cbn [c_st c_thr].
    destruct (step_threads now (c_st c) o k st' r HI Hs t (c_thr c) gs Hok Hnth) as [gs' [Hok' Hsum]].
    exists gs'. split; auto. lia.
  Qed.

  Lemma GI_run T0 sch : forall c, GI T0 c -> GI T0 (run_sched X E c sch).
  Proof.
    induction sch as [|ev sch IH]; intros c H; cbn; auto. apply IH. now apply GI_step.
  Qed.

  Lemma all_ok_done st gs ps :
    all_ok st gs ps -> forallb finished ps = true ->
    zsuml (map g_acc gs) = - zsuml (map settled_of_prog ps).
  Proof.
    intros H. induction H as [|g p gs ps Hg _ IH]; cbn [forallb map zsuml]; [lia|].
    intros Hf. apply andb_true_iff in Hf as [Hp Hf]. specialize (IH Hf).
    destruct p as [s|]; [|discriminate]. destruct Hg as [_ [_ Hb]].
    inversion Hb; subst. cbn [settled_of_prog]. lia.
  Qed.

  (* every schedule: once all requests have returned, the ledger total is the initial total minus
     what the completed withdrawals settled *)
  Theorem quiescent_total T0 c sch :
    GI T0 c -> forallb finished (c_thr (run_sched X E c sch)) = true ->
    total (c_st (run_sched X E c sch)) = T0 - zsuml (map settled_of_prog (c_thr (run_sched X E c sch))).
  Proof.
    intros H Hf. destruct (GI_run T0 sch c H) as [_ [gs [Hok Htot]]].
    rewrite (all_ok_done _ _ _ Hok Hf) in Htot. lia.
  Qed.
End Balanced.

(* ---------- the request programs are balanced ---------- *)
Section Programs.
  Variables X E : Z.

  Definition Tr : sstate -> Prop := fun _ => True.
  Lemma stable_Tr : stable Tr. Proof. intros ? ? ? ? ? _. exact I. Qed.
  Definition Reg (i : N) : sstate -> Prop := fun st => registered st i = true.
  Lemma stable_Reg i : stable (Reg i). Proof. intros ? ? ? ? ? H. now apply registered_mono. Qed.

  Lemma balanced_read_back P i : stable P -> balanced X E P 0 (read_back i).
  Proof.
    intros HP. apply BCall. intros now st HI Hp. exists P. split; [auto|]. split; [now apply HP|].
    replace (0 + ledger_delta st (GetNodeBal i)) with (- 0) by (cbn; lia). apply BDone.
  Qed.

  Lemma add_node_bal_obs now st q d :
    snd (sstep X E now st (AddNodeBal q d)) = (if registered st q then ROk else RErr EUnregistered) /\
    ledger_delta st (AddNodeBal q d) = if registered st q then d else 0.
  Proof.
    split; [|reflexivity]. cbn [sstep]. destruct (registered st q); auto. destruct (aget q (s_link st)); auto.
  Qed.

  Lemma balanced_credit_prog i peers c k :
    (forall tot, balanced X E (Reg i) tot (k tot)) ->
    forall tot, balanced X E (Reg i) tot (credit_prog peers c tot k).
  Proof.
    intros Hk. induction peers as [|q rest IH]; intros tot; cbn [credit_prog]; auto.
    apply BCall. intros now st HI Hp. exists (Reg i). split; [apply stable_Reg|].
    split; [now apply stable_Reg|].
    destruct (add_node_bal_obs now st q c) as [Hr Hd]. rewrite Hr, Hd.
    destruct (registered st q); [apply IH|]. replace (tot + 0) with tot by lia. apply IH.
  Qed.

  Theorem balanced_on_update cfg now_b nd peers :
    balanced X E (Reg (n_id nd)) 0 (on_update_prog cfg now_b nd peers).
  Proof.
    unfold on_update_prog.
    destruct (n_host nd); [apply balanced_read_back, stable_Reg|].
    destruct ((p_interval cfg <=? 0) || (p_price cfg =? 0)); [apply (BDone X E _ 0)|].
    destruct (interval_credit cfg now_b (n_seen nd) =? 0); [apply balanced_read_back, stable_Reg|].
    apply balanced_credit_prog. intros tot.
    apply BCall. intros now st HI Hp. exists (Reg (n_id nd)). split; [apply stable_Reg|].
    split; [now apply stable_Reg|].
    destruct (add_node_bal_obs now st (n_id nd) (- tot)) as [Hr Hd]. rewrite Hr, Hd.
    unfold Reg in Hp. rewrite Hp. replace (tot + - tot) with 0 by lia.
    apply balanced_read_back, stable_Reg.
  Qed.

  Theorem balanced_update cfg i reported blk now_b :
    balanced X E Tr 0 (update_prog cfg i reported blk now_b).
  Proof.
    unfold update_prog. apply BCall. intros now st HG _.
    cbn [sstep ledger_delta]. destruct (aget i (s_nodes st)) as [before|] eqn:Hb; cbn [fst snd].
    - assert (Hid : n_id before = i) by (apply (proj2 HG); exact Hb).
      exists (Reg (n_id before)). split; [apply stable_Reg|]. split.
      { unfold Reg, registered, amem. now rewrite Hid, Hb. }
      replace (0 + 0) with 0 by lia.
      apply BCall. intros now1 st1 HG1 Hp1. exists (Reg (n_id before)). split; [apply stable_Reg|].
      split; [now apply stable_Reg|].
      replace (0 + ledger_delta st1 (UpdatePeers i reported blk)) with 0 by (cbn; lia).
      destruct (snd (sstep X E now1 st1 (UpdatePeers i reported blk))); try apply (BDone X E _ 0).
      apply BCall. intros now2 st2 HG2 Hp2. exists (Reg (n_id before)). split; [apply stable_Reg|].
      split; [now apply stable_Reg|].
      replace (0 + ledger_delta st2 (NodePeers i)) with 0 by (cbn; lia).
      destruct (snd (sstep X E now2 st2 (NodePeers i))); try apply (BDone X E _ 0).
      apply balanced_on_update.
    - exists Tr. split; [apply stable_Tr|]. split; [exact I|]. apply (BDone X E _ 0).
  Qed.

  Theorem balanced_connect nd : balanced X E Tr 0 (connect_prog nd).
  Proof.
    unfold connect_prog. apply BCall. intros now st HG _. exists Tr. split; [apply stable_Tr|]. split; [exact I|].
    replace (0 + ledger_delta st (SetNode nd)) with 0 by (cbn; lia).
    destruct (snd (sstep X E now st (SetNode nd))); try apply (BDone X E _ 0).
    apply balanced_read_back, stable_Tr.
  Qed.

  Theorem balanced_add_node w i : balanced X E Tr 0 (add_node_prog w i).
  Proof.
    unfold add_node_prog. apply BCall. intros now st HG _. exists Tr. split; [apply stable_Tr|]. split; [exact I|].
    replace (0 + ledger_delta st (AddAcctNode w i)) with (- 0) by (cbn; lia). apply BDone.
  Qed.

  Theorem balanced_withdraw w decide : balanced X E Tr 0 (withdraw_prog w decide).
  Proof.
    unfold withdraw_prog. apply BCall. intros now st HG _. exists Tr. split; [apply stable_Tr|]. split; [exact I|].
    replace (0 + ledger_delta st (GetAcctBal w)) with 0 by (cbn; lia).
    cbn [sstep snd]. destruct (decide (b_credit (acct_bal st w))); [|apply (BDone X E _ 0)].
    apply BCall. intros now1 st1 HG1 _. exists Tr. split; [apply stable_Tr|]. split; [exact I|].
    cbn [ledger_delta]. replace (0 + - b_credit (acct_bal st w)) with (- b_credit (acct_bal st w)) by lia.
    apply BDone.
  Qed.

  (* the programs a pool serves *)
  Inductive served : prog -> Prop :=
  | SvUpdate cfg i reported blk now_b : served (update_prog cfg i reported blk now_b)
  | SvConnect nd : served (connect_prog nd)
  | SvAddNode w i : served (add_node_prog w i)
  | SvWithdraw w decide : served (withdraw_prog w decide).

  Lemma served_balanced p : served p -> balanced X E Tr 0 p.
  Proof.
    intros [ | | | ]; [apply balanced_update|apply balanced_connect|apply balanced_add_node|apply balanced_withdraw].
  Qed.

  Lemma GI_init st thr : Good st -> Forall served thr -> GI X E (total st) {| c_st := st; c_thr := thr |}.
  Proof.
    intros HG Hs. split; [exact HG|]. cbn [c_st c_thr].
    exists (map (fun _ => {| g_P := Tr; g_acc := 0 |}) thr). split.
    - induction Hs as [|p ps Hp _ IH]; cbn [map]; constructor; auto.
      split; [apply stable_Tr|]. split; [exact I|]. now apply served_balanced.
    - assert (zsuml (map g_acc (map (fun _ : prog => {| g_P := Tr; g_acc := 0 |}) thr)) = 0); [|lia].
      clear. induction thr; cbn; auto.
  Qed.

  (* C01 / C10: any number of concurrent connects, keep-alives, account linkings and withdrawals,
     any interleaving of their store actions, any clock values: at quiescence the ledger total is
     the initial total minus the credit the withdrawals settled — no update is lost, no credit
     created *)
  Theorem concurrent_zero_sum st thr sch :
    Good st -> Forall served thr ->
    let c' := run_sched X E {| c_st := st; c_thr := thr |} sch in
    forallb finished (c_thr c') = true ->
    total (c_st c') = total st - zsuml (map settled_of_prog (c_thr c')).
  Proof.
    intros HG Hs c' Hf. apply quiescent_total; auto. now apply GI_init.
  Qed.
End Programs.
