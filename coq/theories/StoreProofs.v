(* StoreProofs.v — theorems about the contract model (C12), the ledger deltas used by C01
   and the peer-expiry characterisation used by C11. *)
From VP Require Import Base Nonce Store.

(* ------------------------------------------------------------------ ledger *)
Definition ledger_delta (st : sstate) (o : sop) : Z :=
  match o with
  | AddNodeBal i d => if registered st i then d else 0
  | AddAcctBal a d => d
  | _ => 0
  end.

Definition Inv (st : sstate) : Prop :=
  NoDup (akeys (s_trial st)) /\
  NoDup (akeys (s_nodes st)) /\
  (forall i, amem i (s_link st) = true -> registered st i = true) /\
  (forall i, amem i (s_trial st) = true -> registered st i = true /\ aget i (s_link st) = None) /\
  (forall i a, aget i (s_link st) = Some a -> exists b, aget a (s_acct st) = Some b /\ b_acct b = a) /\
  (forall i, NoDup (akeys (peers_of st i))).

Lemma Inv_s0 : Inv s0.
Proof.
  unfold Inv, s0, registered, amem, peers_of; cbn.
  repeat split; try constructor; try discriminate; intros; try discriminate; constructor.
Qed.

Lemma aval_acct st a : aval b_credit a (s_acct st) = b_credit (acct_bal st a).
Proof. unfold aval, acct_bal. now destruct (aget a (s_acct st)). Qed.
Lemma aval_trial st i : aval b_credit i (s_trial st) = b_credit (trial_bal st i).
Proof. unfold aval, trial_bal. now destruct (aget i (s_trial st)). Qed.

(* every operation changes the ledger total by exactly its delta *)
Theorem total_step X E now st o :
  Inv st -> total (fst (sstep X E now st o)) = total st + ledger_delta st o.
Proof.
  intros (Ht & _). unfold total, sum_credit.
  destruct o; cbn [sstep ledger_delta]; try (cbn; lia).
  - destruct (nstep E (s_nonce st) _) as [m ok]; cbn; lia.
  - destruct (aget i (s_nodes st)); cbn; lia.
  - destruct (N.eqb (n_id nd) 0); cbn; lia.
  - destruct (registered st i); cbn; lia.
  - destruct (aget i (s_nodes st)); cbn; lia.
  - destruct (registered st i); cbn; lia.
  - destruct (registered st i); [|cbn; lia].
    destruct (aget i (s_link st)); cbn [fst upd_acct upd_trial s_acct s_trial].
    + rewrite asum_aset, aval_acct. cbn. lia.
    + rewrite asum_aset, aval_trial. cbn. lia.
  - cbn [fst upd_acct s_acct s_trial]. rewrite asum_aset, aval_acct. cbn. lia.
  - destruct (registered st i); [|cbn; lia].
    cbn [fst upd_acct upd_trial upd_link s_acct s_trial].
    rewrite asum_aset, aval_acct, asum_adel, aval_trial by assumption. cbn. lia.
  - destruct (aget i (s_link st)) as [a'|]; [destruct (N.eqb a a')|]; cbn; lia.
Qed.

Lemma amem_aset {V} k k' (v : V) m : amem k' (aset k v m) = N.eqb k' k || amem k' m.
Proof. unfold amem. rewrite aget_aset. now destruct (N.eqb k' k). Qed.

Lemma amem_map_keys {V} (f : N * V -> N * V) (m : amap V) i :
  (forall kv, fst (f kv) = fst kv) -> amem i (map f m) = amem i m.
Proof.
  intros Hf. unfold amem. induction m as [|kv m IH]; cbn; auto.
  destruct (f kv) as [k v] eqn:E. pose proof (Hf kv) as H. rewrite E in H. cbn in H. subst k.
  destruct kv as [k0 v0]. cbn. destruct (N.eqb i k0); auto.
Qed.

Lemma akeys_map_keys {V} (f : N * V -> N * V) (m : amap V) :
  (forall kv, fst (f kv) = fst kv) -> akeys (map f m) = akeys m.
Proof.
  intros Hf. unfold akeys. rewrite map_map. apply map_ext. auto.
Qed.

Lemma registered_mono X E now st o i :
  registered st i = true -> registered (fst (sstep X E now st o)) i = true.
Proof.
  unfold registered. intros H.
  destruct o; cbn [sstep]; auto.
  - destruct (nstep E (s_nonce st) _) as [m ok]; cbn; auto.
  - destruct (aget i0 (s_nodes st)); cbn; auto.
  - destruct (N.eqb (n_id nd) 0); cbn; auto. rewrite amem_aset, H. apply orb_true_r.
  - destruct (registered st i0); cbn; auto.
  - destruct (aget i0 (s_nodes st)); cbn; auto. rewrite amem_aset, H. apply orb_true_r.
  - destruct (registered st i0); cbn; auto.
  - destruct (registered st i0); cbn; auto. destruct (aget i0 (s_link st)); cbn; auto.
  - destruct (registered st i0); cbn; auto.
  - destruct (aget i0 (s_link st)) as [a'|]; [destruct (N.eqb a a')|]; cbn; auto.
  - cbn. rewrite amem_map_keys; auto.
Qed.

(* ------------------------------------------------------------------ contract facts *)

(* operations that name a node *)
Definition node_arg (o : sop) : option N :=
  match o with
  | GetNode i | NodePeers i | UpdatePeers i _ _ | GetNodeBal i | AddNodeBal i _ | AddAcctNode _ i => Some i
  | _ => None
  end.

Theorem unregistered_errors X E now st o i :
  node_arg o = Some i -> registered st i = false ->
  sstep X E now st o = (st, RErr EUnregistered).
Proof.
  unfold registered, amem. intros Ho Hr.
  destruct o; cbn in Ho; try discriminate; injection Ho as ->; cbn [sstep];
    unfold registered, amem; destruct (aget i (s_nodes st)); try discriminate; reflexivity.
Qed.

(* linking: the trial credit is moved exactly once, everything else stays *)
Theorem link_migrates_once X E now st a i :
  registered st i = true ->
  let st' := fst (sstep X E now st (AddAcctNode a i)) in
  snd (sstep X E now st (AddAcctNode a i)) = ROk /\
  aget i (s_link st') = Some a /\
  aget i (s_trial st') = None /\
  acct_bal st' a = {| b_acct := a; b_credit := b_credit (acct_bal st a) + b_credit (trial_bal st i) |} /\
  (forall a', a' <> a -> aget a' (s_acct st') = aget a' (s_acct st)) /\
  (forall j, j <> i -> aget j (s_trial st') = aget j (s_trial st) /\ aget j (s_link st') = aget j (s_link st)).
Proof.
  intros Hr. cbn [sstep]. rewrite Hr. cbn.
  unfold acct_bal. cbn. rewrite !aget_aset_same, aget_adel_same.
  repeat split; auto.
  - intros a' Hne. apply aget_aset_other; congruence.
  - apply aget_adel_other; congruence.
  - apply aget_aset_other; congruence.
Qed.

(* once linked, every node of the wallet reads the wallet's balance, and crediting any of them
   credits that one balance *)
Theorem linked_nodes_share st i a : aget i (s_link st) = Some a -> node_bal st i = acct_bal st a.
Proof. unfold node_bal. now intros ->. Qed.

Theorem add_node_bal_linked X E now st i a d :
  registered st i = true -> aget i (s_link st) = Some a ->
  let st' := fst (sstep X E now st (AddNodeBal i d)) in
  b_credit (acct_bal st' a) = b_credit (acct_bal st a) + d /\ s_trial st' = s_trial st /\
  s_link st' = s_link st.
Proof.
  intros Hr Hl. cbn [sstep]. rewrite Hr, Hl. cbn. unfold acct_bal at 1. cbn.
  rewrite aget_aset_same. cbn. auto.
Qed.

Theorem add_node_bal_trial X E now st i d :
  registered st i = true -> aget i (s_link st) = None ->
  let st' := fst (sstep X E now st (AddNodeBal i d)) in
  b_credit (trial_bal st' i) = b_credit (trial_bal st i) + d /\ s_acct st' = s_acct st.
Proof.
  intros Hr Hl. cbn [sstep]. rewrite Hr, Hl. cbn. unfold trial_bal at 1. cbn.
  rewrite aget_aset_same. cbn. auto.
Qed.

(* active-host queries: exactly the registered full-node hosts of the kind seen within X *)
Theorem active_hosts_exact X E now st kind limit :
  exists l, sstep X E now st (ActiveHosts kind limit) = (st, RHosts l limit) /\
  forall nd, In nd l <->
    In nd (map snd (s_nodes st)) /\ n_host nd = true /\
    (kind = 0%N \/ n_kind nd = kind) /\ now - X < n_seen nd.
Proof.
  eexists; split; [reflexivity|]. intros nd. rewrite filter_In. unfold eligible_host, active.
  rewrite !andb_true_iff, orb_true_iff, !N.eqb_eq, Z.ltb_lt. tauto.
Qed.

(* statistics: totals are the true sums, host and client counts partition the nodes *)
Lemma count_partition {A} (f : A -> bool) l :
  (count f l + count (fun x => negb (f x)) l = length l)%nat.
Proof.
  unfold count. induction l as [|x l IH]; cbn; auto. destruct (f x); cbn; lia.
Qed.
Lemma count_le {A} (f g : A -> bool) l :
  (forall x, f x = true -> g x = true) -> (count f l <= count g l)%nat.
Proof.
  intros H. unfold count. induction l as [|x l IH]; cbn; auto.
  destruct (f x) eqn:Hf; [rewrite (H _ Hf); cbn; lia|]. destruct (g x); cbn; lia.
Qed.

Theorem stats_true X now st :
  let s := mk_stats X now st in
  st_total_credit s = total st /\
  (st_total_hosts s + st_total_clients s = length (s_nodes st))%nat /\
  (st_active_hosts s <= st_total_hosts s)%nat /\ (st_active_clients s <= st_total_clients s)%nat /\
  (forall nd, In nd (map snd (s_nodes st)) -> (n_block nd <= st_latest_block s)%N).
Proof.
  cbn. repeat split.
  - rewrite count_partition. apply map_length.
  - apply count_le. intros x H. now apply andb_true_iff in H.
  - apply count_le. intros x H. now apply andb_true_iff in H.
  - induction (map snd (s_nodes st)) as [|x l IH]; cbn; [tauto|].
    intros nd [->|Hin]; [lia|]. specialize (IH _ Hin). lia.
Qed.

(* ------------------------------------------------------------------ invariant *)
Lemma nodup_filter {A} (f : A * Z -> bool) (l : list (A * Z)) :
  NoDup (map fst l) -> NoDup (map fst (filter f l)).
Proof.
  induction l as [|x l IH]; cbn; auto. intros H. inversion H as [|? ? Hn Hd]; subst.
  destruct (f x); cbn; auto. constructor; auto.
  intros Hin. apply Hn. apply in_map_iff in Hin as [y [Hy Hin]].
  apply filter_In in Hin as [Hin _]. apply in_map_iff. eauto.
Qed.

Lemma refresh_nodup nodes rep : forall p, NoDup (akeys p) -> NoDup (akeys (refresh nodes rep p)).
Proof.
  induction rep as [|q rep IH]; cbn [refresh]; auto. intros p H.
  destruct (aget q nodes); auto. apply IH. now apply akeys_aset_nodup.
Qed.

Lemma peers_of_upd_nodes st v i : peers_of (upd_nodes st v) i = peers_of st i.
Proof. reflexivity. Qed.

Ltac inv_same HI := cbn [fst]; exact HI.
Ltac inv_split := unfold Inv, registered; cbn [s_trial s_nodes s_link s_acct s_peers s_nonce
   upd_nodes upd_peers upd_link upd_acct upd_trial upd_nonce fst];
   split; [|split; [|split; [|split; [|split]]]].

Theorem Inv_step X E now st o : Inv st -> Inv (fst (sstep X E now st o)).
Proof.
  intros HI. pose proof HI as (Ht & Hn & Hl & Htr & Hacct & Hp).
  unfold registered in Hl, Htr.
  destruct o; cbn [sstep]; try (inv_same HI).
  - (* CheckNonce *)
    destruct (nstep E (s_nonce st) _) as [m ok]. inv_split; assumption.
  - destruct (aget i (s_nodes st)); inv_same HI.
  - (* SetNode *)
    destruct (N.eqb (n_id nd) 0); [inv_same HI|]. inv_split; auto.
    + now apply akeys_aset_nodup.
    + intros i H. rewrite amem_aset, (Hl _ H). apply orb_true_r.
    + intros i H. rewrite amem_aset. destruct (Htr _ H) as [-> ?]. split; [apply orb_true_r|assumption].
  - destruct (registered st i); inv_same HI.
  - (* UpdatePeers *)
    destruct (aget i (s_nodes st)) as [nd|]; [|inv_same HI]. inv_split; auto.
    + now apply akeys_aset_nodup.
    + intros j H. rewrite amem_aset, (Hl _ H). apply orb_true_r.
    + intros j H. rewrite amem_aset. destruct (Htr _ H) as [-> ?]. split; [apply orb_true_r|assumption].
    + intros j. unfold peers_of. cbn [s_peers upd_peers upd_nodes]. rewrite aget_aset.
      destruct (N.eqb j i); [|apply Hp].
      apply nodup_filter. apply refresh_nodup. apply Hp.
  - destruct (registered st i); inv_same HI.
  - (* AddNodeBal *)
    destruct (registered st i) eqn:Hr; [|inv_same HI].
    destruct (aget i (s_link st)) as [a|] eqn:Hli; inv_split; auto.
    + intros j a' Hj. rewrite aget_aset.
      destruct (N.eqb_spec a' a) as [->|]; [|now apply (Hacct j)].
      eexists; split; [reflexivity|]. cbn. destruct (Hacct _ _ Hli) as [b [Hb Hba]].
      unfold acct_bal. now rewrite Hb.
    + now apply akeys_aset_nodup.
    + intros j H. rewrite amem_aset in H. apply orb_true_iff in H as [H|H].
      * apply N.eqb_eq in H; subst. split; auto.
      * now apply Htr.
  - (* AddAcctBal *)
    inv_split; auto. intros j a' Hj. rewrite aget_aset.
    destruct (N.eqb_spec a' a) as [->|]; [|now apply (Hacct j)]. eexists; split; reflexivity.
  - (* AddAcctNode *)
    destruct (registered st i) eqn:Hr; [|inv_same HI]. inv_split; auto.
    + now apply akeys_adel_nodup.
    + intros j H. rewrite amem_aset in H. apply orb_true_iff in H as [H|H]; [apply N.eqb_eq in H; now subst|auto].
    + intros j H. unfold amem in H. rewrite aget_adel in H. rewrite aget_aset.
      destruct (N.eqb j i); [discriminate|]. now apply Htr.
    + intros j a' Hj. rewrite aget_aset in Hj. rewrite aget_aset.
      destruct (N.eqb_spec j i) as [->|Hne].
      * injection Hj as <-. rewrite N.eqb_refl. eexists; split; reflexivity.
      * destruct (N.eqb_spec a' a) as [->|]; [eexists; split; reflexivity|]. now apply (Hacct j).
  - destruct (aget i (s_link st)) as [a'|]; [destruct (N.eqb a a')|]; inv_same HI.
  - (* Advance *)
    inv_split; auto.
    + rewrite akeys_map_keys; auto.
    + intros i H. rewrite amem_map_keys; auto.
    + intros i H. rewrite amem_map_keys; auto.
    + intros i. unfold peers_of. cbn [s_peers upd_peers upd_nodes]. specialize (Hp i). unfold peers_of in Hp.
      induction (s_peers st) as [|[k v] m IH]; cbn; [constructor|].
      cbn in Hp. destruct (N.eqb i k).
      * unfold akeys in *. rewrite map_map. cbn. exact Hp.
      * apply IH. exact Hp.
Qed.

Theorem Inv_run X E ops : forall st, Inv st -> Inv (srun X E st ops).
Proof.
  induction ops as [|[now o] ops IH]; cbn; auto. intros st H. apply IH. now apply Inv_step.
Qed.

(* ------------------------------------------------------------------ peer expiry (C11) *)
Lemma aget_refresh nodes rep : forall p q,
  aget q (refresh nodes rep p) =
  if memb q rep then match aget q nodes with Some nd => Some (n_seen nd) | None => aget q p end
  else aget q p.
Proof.
  induction rep as [|r rep IH]; intros p q; cbn [refresh memb existsb]; auto.
  destruct (aget r nodes) as [nd|] eqn:Hr; rewrite IH; fold (memb q rep).
  - destruct (N.eqb_spec q r) as [->|Hne]; cbn [orb].
    + rewrite Hr, aget_aset_same. now destruct (memb r rep).
    + rewrite aget_aset_other by congruence. reflexivity.
  - destruct (N.eqb_spec q r) as [->|Hne]; cbn [orb]; auto.
    rewrite Hr. now destruct (memb r rep).
Qed.

Lemma nodup_aget_in {V} (m : amap V) k v : NoDup (akeys m) -> In (k, v) m -> aget k m = Some v.
Proof.
  induction m as [|[k' v'] m IH]; cbn; [tauto|]. intros H Hin.
  inversion H as [|? ? Hn Hd]; subst. destruct Hin as [[= -> ->]|Hin].
  - now rewrite N.eqb_refl.
  - destruct (N.eqb_spec k k') as [->|]; auto. exfalso. apply Hn.
    change k' with (fst (k', v)). now apply in_map.
Qed.

(* the timestamp by which a candidate peer is judged *)
Definition judged_ts (st : sstate) (i : N) (now : Z) (reported : list N) (q : N) : option Z :=
  if memb q reported then
    (if N.eqb q i then (if registered st i then Some now else aget q (peers_of st i))
     else match aget q (s_nodes st) with Some nd => Some (n_seen nd) | None => aget q (peers_of st i) end)
  else aget q (peers_of st i).

Theorem update_peers_exact X E now st i reported blk nd :
  Inv st -> aget i (s_nodes st) = Some nd ->
  exists gone, sstep X E now st (UpdatePeers i reported blk) =
               (fst (sstep X E now st (UpdatePeers i reported blk)), RIds gone) /\
  let st' := fst (sstep X E now st (UpdatePeers i reported blk)) in
  (forall q, In q gone <-> exists ts, judged_ts st i now reported q = Some ts /\ ts <= now - X) /\
  (forall q, amem q (peers_of st' i) = true <->
             exists ts, judged_ts st i now reported q = Some ts /\ now - X < ts) /\
  (forall q ts, aget q (peers_of st' i) = Some ts -> judged_ts st i now reported q = Some ts) /\
  (forall j, j <> i -> peers_of st' j = peers_of st j).
Proof.
  intros HI Hnd. destruct HI as (_ & _ & _ & _ & _ & Hp).
  cbn [sstep]. rewrite Hnd. eexists; split; [reflexivity|]. cbn [fst].
  set (nd' := {| n_id := n_id nd; n_uri := n_uri nd; n_seen := now; n_kind := n_kind nd;
                 n_host := n_host nd; n_payout := n_payout nd; n_block := blk |}).
  set (nodes' := aset i nd' (s_nodes st)).
  set (p := refresh nodes' reported (peers_of st i)).
  assert (Hnd_p : NoDup (akeys p)) by (apply refresh_nodup, Hp).
  assert (Hj : forall q, aget q p = judged_ts st i now reported q).
  { intros q. unfold p. rewrite aget_refresh. unfold judged_ts, registered, amem, nodes'.
    rewrite Hnd. destruct (memb q reported); auto. rewrite aget_aset.
    destruct (N.eqb q i); auto. }
  assert (Hexp : forall ts, expired X now ts = true <-> ts <= now - X).
  { intros ts. unfold expired. rewrite negb_true_iff, Z.ltb_ge. tauto. }
  repeat split.
  - intros Hin. apply in_map_iff in Hin as [[q' ts] [Hq Hin]]. cbn in Hq; subst q'.
    apply filter_In in Hin as [Hin He]. cbn in He. exists ts. split; [|now apply Hexp].
    rewrite <- Hj. now apply nodup_aget_in.
  - intros [ts [Hts Hle]]. rewrite <- Hj in Hts. apply aget_in in Hts.
    apply in_map_iff. exists (q, ts). split; auto. apply filter_In. split; auto. now apply Hexp.
  - unfold peers_of at 1. cbn. rewrite aget_aset_same. unfold amem.
    destruct (aget q (filter _ p)) as [ts|] eqn:Hg; [|discriminate]. intros _.
    apply aget_in in Hg. apply filter_In in Hg as [Hin He]. cbn in He.
    exists ts. split; [rewrite <- Hj; now apply nodup_aget_in|].
    apply negb_true_iff in He. unfold expired in He. apply negb_false_iff in He. now apply Z.ltb_lt.
  - intros [ts [Hts Hlt]]. unfold peers_of at 1. cbn. rewrite aget_aset_same. unfold amem.
    rewrite <- Hj in Hts. apply aget_in in Hts.
    assert (Hin : In (q, ts) (filter (fun kv => negb (expired X now (snd kv))) p)).
    { apply filter_In. split; auto. cbn. unfold expired. rewrite negb_involutive. now apply Z.ltb_lt. }
    rewrite (nodup_aget_in _ q ts); auto. now apply nodup_filter.
  - intros q ts. unfold peers_of at 1. cbn. rewrite aget_aset_same. intros Hg.
    apply aget_in in Hg. apply filter_In in Hg as [Hin _]. rewrite <- Hj. now apply nodup_aget_in.
  - intros j Hne. unfold peers_of. cbn. now rewrite aget_aset_other by congruence.
Qed.

(* ------------------------------------------------------------------ node records sit under their own id *)
Definition NodeKeys (st : sstate) : Prop :=
  forall i nd, aget i (s_nodes st) = Some nd -> n_id nd = i.

Lemma NodeKeys_s0 : NodeKeys s0.
Proof. intros i nd; cbn; discriminate. Qed.

Lemma aget_map_vals {V W} (g : V -> W) (m : amap V) q :
  aget q (map (fun kv => (fst kv, g (snd kv))) m) = option_map g (aget q m).
Proof. induction m as [|[k v] m IH]; cbn; auto. destruct (N.eqb q k); auto. Qed.

Theorem NodeKeys_step X E now st o : NodeKeys st -> NodeKeys (fst (sstep X E now st o)).
Proof.
  intros H. destruct o; cbn [sstep]; try exact H.
  - destruct (nstep E (s_nonce st) _); exact H.
  - destruct (aget i (s_nodes st)); exact H.
  - destruct (N.eqb (n_id nd) 0); [exact H|]. intros j ndj. cbn. rewrite aget_aset.
    destruct (N.eqb_spec j (n_id nd)); [intros [= <-]; auto|apply H].
  - destruct (registered st i); exact H.
  - destruct (aget i (s_nodes st)) as [nd|] eqn:Hnd; [|exact H]. intros j ndj. cbn. rewrite aget_aset.
    destruct (N.eqb_spec j i) as [->|]; [intros [= <-]; cbn; now apply H|apply H].
  - destruct (registered st i); exact H.
  - destruct (registered st i); [|exact H]. destruct (aget i (s_link st)); exact H.
  - destruct (registered st i); exact H.
  - destruct (aget i (s_link st)) as [a'|]; [destruct (N.eqb a a')|]; exact H.
  - intros j ndj. cbn. rewrite (aget_map_vals (shift_node d)).
    destruct (aget j (s_nodes st)) eqn:Hj; cbn; [|discriminate]. intros [= <-]. cbn. now apply H.
Qed.

Theorem NodeKeys_run X E ops : forall st, NodeKeys st -> NodeKeys (srun X E st ops).
Proof.
  induction ops as [|[now o] ops IH]; cbn; auto. intros st H. apply IH. now apply NodeKeys_step.
Qed.
