(* NonceProofs.v — theorems about the nonce models (C05). *)
From VP Require Import Base Nonce.

(* strictly increasing list with a strict lower bound *)
Fixpoint incr_from (lo : Z) (l : list Z) : Prop :=
  match l with [] => True | x :: l' => lo < x /\ incr_from x l' end.

Lemma hw_aset i j n st : hw (aset i n st) j = if N.eqb j i then n else hw st j.
Proof. unfold hw. rewrite aget_aset. now destruct (N.eqb j i). Qed.

(* accepted  <->  fresh and above the high-water mark *)
Lemma nstep_accept_iff E st r :
  snd (nstep E st r) = true <-> stale E (nr_now r) (nr_n r) = false /\ hw st (nr_id r) < nr_n r.
Proof.
  unfold nstep. destruct (stale E (nr_now r) (nr_n r)); cbn.
  - split; [discriminate|intros [? _]; discriminate].
  - destruct (Z.leb_spec (nr_n r) (hw st (nr_id r))); cbn; split; auto; try discriminate.
    + intros [_ ?]; lia.
Qed.

Lemma nstep_reject_same E st r : snd (nstep E st r) = false -> fst (nstep E st r) = st.
Proof.
  unfold nstep. destruct (stale _ _ _); cbn; auto.
  destruct (nr_n r <=? hw st (nr_id r)); cbn; auto. discriminate.
Qed.

Lemma nstep_hw E st r j :
  hw (fst (nstep E st r)) j =
  if snd (nstep E st r) && N.eqb j (nr_id r) then nr_n r else hw st j.
Proof.
  unfold nstep. destruct (stale _ _ _); cbn; auto.
  destruct (nr_n r <=? hw st (nr_id r)); cbn; auto.
  apply hw_aset.
Qed.

(* the high-water mark never decreases *)
Lemma nstep_hw_mono E st r j : hw st j <= hw (fst (nstep E st r)) j.
Proof.
  rewrite nstep_hw. destruct (snd (nstep E st r)) eqn:Hb; cbn; [|lia].
  destruct (N.eqb_spec j (nr_id r)); [|lia]. subst.
  apply nstep_accept_iff in Hb. lia.
Qed.

Theorem accepted_increasing E rs : forall st i, incr_from (hw st i) (accepted E st rs i).
Proof.
  induction rs as [|r rs IH]; intros st i; cbn [accepted incr_from]; auto.
  pose proof (nstep_hw E st r i) as Hhw.
  pose proof (nstep_accept_iff E st r) as Hacc.
  pose proof (nstep_reject_same E st r) as Hrej.
  specialize (IH (fst (nstep E st r)) i).
  destruct (nstep E st r) as [st' b]. cbn [fst snd] in *.
  destruct b; cbn [andb] in *.
  - destruct (N.eqb_spec (nr_id r) i) as [Heq|Hne]; cbn [incr_from].
    + subst i. rewrite N.eqb_refl in Hhw. rewrite Hhw in IH.
      split; [apply Hacc; reflexivity|exact IH].
    + replace (N.eqb i (nr_id r)) with false in Hhw
        by (symmetry; apply N.eqb_neq; congruence).
      rewrite Hhw in IH. exact IH.
  - assert (st' = st) by auto. subst st'. exact IH.
Qed.

Lemma incr_from_lb lo l x : incr_from lo l -> In x l -> lo < x.
Proof.
  revert lo. induction l as [|y l IH]; cbn; [tauto|].
  intros lo [Hlt Hi] [->|Hin]; auto. specialize (IH y Hi Hin). lia.
Qed.

Lemma incr_from_count lo l x : incr_from lo l -> (count_occ Z.eq_dec l x <= 1)%nat.
Proof.
  revert lo. induction l as [|y l IH]; cbn; intros lo H; [lia|].
  destruct H as [Hlt Hi]. destruct (Z.eq_dec y x) as [->|Hne].
  - assert (count_occ Z.eq_dec l x = 0)%nat; [|lia].
    apply count_occ_not_In. intros Hin. pose proof (incr_from_lb _ _ _ Hi Hin). lia.
  - eapply IH; eauto.
Qed.

(* a given (identity, nonce) is accepted at most once in any history *)
Theorem replay_at_most_once E rs st i n :
  (count_occ Z.eq_dec (accepted E st rs i) n <= 1)%nat.
Proof. eapply incr_from_count, accepted_increasing. Qed.

(* and never at or below anything already accepted *)
Theorem accepted_above_start E rs st i n :
  In n (accepted E st rs i) -> hw st i < n.
Proof. apply incr_from_lb, accepted_increasing. Qed.

(* isolation: the decisions on identity i depend only on the sub-history of i *)
Definition only (i : N) (rs : list nreq) := filter (fun r => N.eqb (nr_id r) i) rs.

Fixpoint decisions (E : Z) (st : amap Z) (rs : list nreq) (i : N) : list bool :=
  match rs with
  | [] => []
  | r :: rs' =>
      let '(st', b) := nstep E st r in
      if N.eqb (nr_id r) i then b :: decisions E st' rs' i else decisions E st' rs' i
  end.

Lemma nstep_depends_on_hw E st1 st2 r :
  hw st1 (nr_id r) = hw st2 (nr_id r) -> snd (nstep E st1 r) = snd (nstep E st2 r).
Proof. unfold nstep. intros ->. destruct (stale _ _ _); cbn; auto. now destruct (_ <=? _). Qed.

Theorem isolation E rs : forall st1 st2 i,
  hw st1 i = hw st2 i ->
  decisions E st1 rs i = decisions E st2 (only i rs) i.
Proof.
  induction rs as [|r rs IH]; intros st1 st2 i Hhw; cbn; auto.
  destruct (N.eqb_spec (nr_id r) i) as [Heq|Hne].
  - cbn [decisions]. destruct (nstep E st1 r) as [s1 b1] eqn:H1.
    destruct (nstep E st2 r) as [s2 b2] eqn:H2.
    rewrite (proj2 (N.eqb_eq _ _) Heq).
    assert (b1 = b2).
    { replace b1 with (snd (nstep E st1 r)) by now rewrite H1.
      replace b2 with (snd (nstep E st2 r)) by now rewrite H2.
      apply nstep_depends_on_hw. now rewrite Heq. }
    subst b2. f_equal. apply IH.
    replace s1 with (fst (nstep E st1 r)) by now rewrite H1.
    replace s2 with (fst (nstep E st2 r)) by now rewrite H2.
    rewrite !nstep_hw, H1, H2. cbn [snd]. rewrite Heq, N.eqb_refl.
    destruct b1; cbn; auto.
  - destruct (nstep E st1 r) as [s1 b1] eqn:H1.
    apply IH. replace s1 with (fst (nstep E st1 r)) by now rewrite H1.
    rewrite nstep_hw. replace (N.eqb i (nr_id r)) with false
      by (symmetry; apply N.eqb_neq; congruence).
    now rewrite andb_false_r.
Qed.

(* ---------- persistent driver ---------- *)
Definition brel (E : Z) (bst : amap bentry) (nst : amap Z) : Prop :=
  forall i,
    match aget i bst with
    | Some e => aget i nst = Some (be_n e) /\ 0 < be_n e /\
                (be_exp e = 0 \/ be_n e + E < be_exp e * second)
    | None => aget i nst = None
    end.

Lemma sec_bound t : t - second < sec t * second <= t.
Proof.
  unfold sec, second.
  pose proof (Z.div_mod t 1000000000 ltac:(lia)).
  pose proof (Z.mod_pos_bound t 1000000000 ltac:(lia)). lia.
Qed.

Lemma sec_lt_iff now x : (sec now <? x) = true <-> now < x * second.
Proof.
  rewrite Z.ltb_lt. unfold sec, second.
  pose proof (Z.div_mod now 1000000000 ltac:(lia)).
  pose proof (Z.mod_pos_bound now 1000000000 ltac:(lia)). split; nia.
Qed.

(* A TTL rule covers the nonce when the entry it writes outlives the nonce's freshness window:
   the entry is still visible at every instant at which the nonce is not yet stale. *)
Definition ttl_covers (ttl : Z -> Z -> Z -> Z) : Prop :=
  forall E now n, 0 < E -> now - E < n -> n + E < sec (now + ttl E now n) * second.

(* With ANY TTL rule that covers the nonce the persistent driver takes exactly the decisions of
   the high-water-mark model, at every instant (no assumption on the clock). *)
Lemma bstep_sim_gen ttl E bst nst r :
  ttl_covers ttl -> 0 < E -> brel E bst nst ->
  snd (bstep ttl E bst r) = snd (nstep E nst r) /\
  brel E (fst (bstep ttl E bst r)) (fst (nstep E nst r)).
Proof.
  intros Hcov HE Hrel. unfold bstep, nstep.
  destruct (stale E (nr_now r) (nr_n r)) eqn:Hst; cbn; [split; auto|].
  unfold stale in Hst. replace (0 <? E) with true in * by (symmetry; now apply Z.ltb_lt).
  cbn in Hst. apply Z.leb_gt in Hst.
  pose proof (Hrel (nr_id r)) as Hi. unfold blast, hw.
  destruct (aget (nr_id r) bst) as [e|] eqn:Hb.
  - destruct Hi as [Hn [Hpos Hexp]]. rewrite Hn.
    destruct (bvisible (nr_now r) e) eqn:Hv.
    + destruct (Z.leb_spec (nr_n r) (be_n e)); cbn; [split; auto|].
      split; auto. intros j. rewrite !aget_aset. destruct (N.eqb j (nr_id r)); [|apply Hrel].
      cbn. split; [reflexivity|]. split; [lia|]. right.
      apply Hcov; lia.
    + (* entry expired: the stored nonce is stale, so both reject/accept alike *)
      unfold bvisible in Hv. apply orb_false_iff in Hv as [Hz Hlt].
      apply Z.eqb_neq in Hz. destruct Hexp as [?|Hexp]; [contradiction|].
      assert (Hge : be_exp e * second <= nr_now r).
      { destruct (Z.lt_ge_cases (nr_now r) (be_exp e * second)) as [Hc|]; auto.
        apply sec_lt_iff in Hc. congruence. }
      destruct (Z.leb_spec (nr_n r) 0); destruct (Z.leb_spec (nr_n r) (be_n e)); cbn;
        try (split; [reflexivity|assumption]); try lia.
      split; auto. intros j. rewrite !aget_aset. destruct (N.eqb j (nr_id r)); [|apply Hrel].
      cbn. split; [reflexivity|]. split; [lia|]. right.
      apply Hcov; lia.
  - rewrite Hi. destruct (Z.leb_spec (nr_n r) 0); cbn; [split; auto|].
    split; auto. intros j. rewrite !aget_aset. destruct (N.eqb j (nr_id r)); [|apply Hrel].
    cbn. split; [reflexivity|]. split; [lia|]. right.
    apply Hcov; lia.
Qed.

Theorem brun_eq_nrun_gen ttl E rs : ttl_covers ttl -> 0 < E -> forall bst nst,
  brel E bst nst -> brun ttl E bst rs = nrun E nst rs.
Proof.
  intros Hcov HE. induction rs as [|r rs IH]; intros bst nst Hrel; cbn; auto.
  destruct (bstep_sim_gen ttl E bst nst r Hcov HE Hrel) as [Hd Hr].
  destruct (bstep ttl E bst r) as [b' d1]. destruct (nstep E nst r) as [n' d2].
  cbn in *. subst. f_equal. now apply IH.
Qed.

Lemma ttl_cover_nonce_covers : ttl_covers ttl_cover_nonce.
Proof.
  intros E now n HE Hf. unfold ttl_cover_nonce.
  pose proof (sec_bound (now + (E + second + Z.max 0 (n - now)))). unfold second in *. lia.
Qed.

Lemma bstep_sim E bst nst r :
  0 < E -> brel E bst nst ->
  snd (bstep ttl_cover_nonce E bst r) = snd (nstep E nst r) /\
  brel E (fst (bstep ttl_cover_nonce E bst r)) (fst (nstep E nst r)).
Proof. apply bstep_sim_gen, ttl_cover_nonce_covers. Qed.

Theorem brun_eq_nrun E rs : 0 < E -> forall bst nst,
  brel E bst nst -> brun ttl_cover_nonce E bst rs = nrun E nst rs.
Proof. apply brun_eq_nrun_gen, ttl_cover_nonce_covers. Qed.

Lemma brel_empty E : brel E [] [].
Proof. intros i. reflexivity. Qed.

(* reopening the database is the identity on the key space (entries carry absolute expiry) *)
Definition reopen (bst : amap bentry) : amap bentry := bst.

(* the pinned rule (TTL counted from acceptance) does NOT refine the model: a request captured
   in flight is honoured a second time in the sub-second window before its nonce goes stale *)
Definition E15 : Z := 900 * second.
Definition ttl_witness : list nreq :=
  [ {| nr_now := 1000900000000; nr_id := 1%N; nr_n := 1000899000000 |};
    {| nr_now := 1900200000000; nr_id := 1%N; nr_n := 1000899000000 |} ].
Theorem ttl_from_accept_refuted :
  brun ttl_from_accept E15 [] ttl_witness = [true; true] /\
  nrun E15 [] ttl_witness = [true; false] /\
  brun ttl_cover_nonce E15 [] ttl_witness = [true; false].
Proof. vm_compute. auto. Qed.

(* future-dated nonce: window as long as the clock skew *)
Definition ttl_witness_future : list nreq :=
  [ {| nr_now := 1000000000000; nr_id := 1%N; nr_n := 1600000000000 |};
    {| nr_now := 2000000000000; nr_id := 1%N; nr_n := 1600000000000 |} ].
Theorem ttl_from_accept_refuted_future :
  brun ttl_from_accept E15 [] ttl_witness_future = [true; true] /\
  brun ttl_cover_nonce E15 [] ttl_witness_future = [true; false].
Proof. vm_compute. auto. Qed.

(* a TTL "measured from the nonce and rounded up to the next full second": rounding the duration up
   does not make up for the database rounding the expiry instant down; in the last fraction of a
   second of the nonce's window the entry is gone and a repeat is accepted *)
Definition ttl_round_up (E now n : Z) : Z := ((n + E - now) / second) * second + second.
Definition ttl_witness_round : list nreq :=
  [ {| nr_now := 1000600000000; nr_id := 1%N; nr_n := 1000599000000 |};
    {| nr_now := 1900100000000; nr_id := 1%N; nr_n := 1000599000000 |} ].
Theorem ttl_round_up_refuted :
  brun ttl_round_up E15 [] ttl_witness_round = [true; true] /\
  nrun E15 [] ttl_witness_round = [true; false] /\
  brun ttl_cover_nonce E15 [] ttl_witness_round = [true; false] /\
  ~ ttl_covers ttl_round_up.
Proof.
  split; [vm_compute; reflexivity|]. split; [vm_compute; reflexivity|]. split; [vm_compute; reflexivity|].
  intros H. specialize (H E15 1000600000000 1000599000000 eq_refl eq_refl).
  vm_compute in H. discriminate.
Qed.

(* ---------- optimistic concurrency: racing duplicates ---------- *)
Fixpoint count_accept (l : list (nat * occ_out)) : nat :=
  match l with
  | [] => 0
  | (_, OAccept) :: l' => S (count_accept l')
  | _ :: l' => count_accept l'
  end.

Definition all_txn_n (n : Z) (ts : list (nat * occ_txn)) : Prop :=
  forall j t, In (j, t) ts -> ot_n t = n.
Definition all_begin_n (n : Z) (evs : list occ_ev) : Prop :=
  forall j m, In (EvBegin j m) evs -> m = n.

Lemma occ_lookup_in j ts t : occ_lookup j ts = Some t -> In (j, t) ts.
Proof.
  induction ts as [|[j' t'] ts IH]; cbn; [discriminate|].
  destruct (Nat.eqb_spec j j'); [intros [= ->]; subst; now left|intros; right; auto].
Qed.

(* once the stored value has reached n, no submission of n is accepted any more *)
Lemma occ_saturated n evs : forall s ts,
  all_begin_n n evs -> all_txn_n n ts ->
  (forall j t, In (j, t) ts -> n <= ot_snap_val t \/ ot_snap_ver t <> oc_ver s) ->
  n <= oc_val s ->
  count_accept (occ_run s ts evs) = 0%nat.
Proof.
  induction evs as [|[j m|j] evs IH]; intros s ts Hb Ht Hold Hval; cbn; auto.
  - apply IH; auto.
    + intros j' m' Hin. apply (Hb j' m'). now right.
    + intros j' t' [[= <- <-]|Hin]; [cbn; apply (Hb j m); now left|eauto].
    + intros j' t' [[= <- <-]|Hin]; [left; cbn; auto|eauto].
  - assert (Hb' : all_begin_n n evs) by (intros j' m' Hin; apply (Hb j' m'); now right).
    destruct (occ_lookup j ts) as [t|] eqn:Hl; [|apply IH; auto].
    apply occ_lookup_in in Hl. unfold occ_commit.
    pose proof (Ht _ _ Hl) as Hn. destruct (Hold _ _ Hl) as [Hsv|Hver].
    + replace (ot_n t <=? ot_snap_val t) with true by (symmetry; apply Z.leb_le; lia).
      cbn. apply IH; auto.
    + destruct (ot_n t <=? ot_snap_val t); cbn; [apply IH; auto|].
      destruct (Nat.eqb_spec (ot_snap_ver t) (oc_ver s)); [contradiction|].
      cbn. apply IH; auto.
Qed.

(* any number of racing submissions of the same nonce, any interleaving of their
   begin/commit events: at most one is accepted *)
Theorem occ_duplicates_once n evs : forall s ts,
  all_begin_n n evs -> all_txn_n n ts ->
  (forall j t, In (j, t) ts -> (ot_snap_ver t <= oc_ver s)%nat) ->
  (count_accept (occ_run s ts evs) <= 1)%nat.
Proof.
  induction evs as [|[j m|j] evs IH]; intros s ts Hb Ht Hsnap; cbn; auto.
  - apply IH.
    + intros j' m' Hin. apply (Hb j' m'). now right.
    + intros j' t' [[= <- <-]|Hin]; [cbn; apply (Hb j m); now left|eauto].
    + intros j' t' [[= <- <-]|Hin]; [cbn; auto|eauto].
  - assert (Hb' : all_begin_n n evs) by (intros j' m' Hin; apply (Hb j' m'); now right).
    destruct (occ_lookup j ts) as [t|] eqn:Hl; [|apply IH; auto].
    apply occ_lookup_in in Hl. pose proof (Ht _ _ Hl) as Hn. unfold occ_commit.
    destruct (Z.leb_spec (ot_n t) (ot_snap_val t)); cbn; [apply IH; auto|].
    destruct (Nat.eqb_spec (ot_snap_ver t) (oc_ver s)) as [Hv|Hv]; cbn; [|apply IH; auto].
    rewrite (occ_saturated n); [lia|auto|auto| |cbn; lia].
    intros j' t' Hin. cbn. right. pose proof (Hsnap _ _ Hin). lia.
Qed.

(* from the initial state, with no transaction open *)
Corollary occ_duplicates_once_init n evs v :
  all_begin_n n evs ->
  (count_accept (occ_run {| oc_val := v; oc_ver := 0 |} [] evs) <= 1)%nat.
Proof.
  intros Hb. apply (occ_duplicates_once n); auto; intros j t [].
Qed.
