(* Routing.v — reply routing of jsonrpc2.Remote (remote.go 80-168, pending.go) as a labelled
   transition system.  A call is identified by its request id (Client.NextID: fresh per
   connection).  The pending table maps an id to a one-slot channel; channels are identified by
   (id, generation).  [fixed] selects the repaired discard rule (entries with a live waiter are
   never discarded, a cancelled call removes its entry) or the pinned one (oldest entries are
   discarded whoever waits on them).  No proofs in this file. *)
From VP Require Import Base.

Definition payload := N.
Inductive cres := CPayload (p : payload) | CCtxErr.
Inductive phase := PWaiting (gen : nat) | PDone (r : cres).

Record pentry := { pe_gen : nat; pe_waiting : bool; pe_age : nat }.

Record rst := {
  r_pending : amap pentry;                  (* id -> channel *)
  r_bufs : list (N * nat * payload);        (* full channel buffers: (id, generation, message) *)
  r_gen : nat; r_age : nat;                 (* fresh generation / timestamp *)
  r_calls : amap phase;                     (* id of the call -> its phase *)
  r_delivered : list (N * payload)          (* ghost: every reply Serve has routed, with its id *)
}.
Definition rst0 : rst := {| r_pending := []; r_bufs := []; r_gen := 0; r_age := 0; r_calls := []; r_delivered := [] |}.

Inductive lab :=
| LStartWait (c : N)                 (* Call: LRegister then LReceive with nothing in between *)
| LRegister (c : N)                  (* Call: registers as waiting for its reply, then writes the request *)
| LReceive (c : N)                   (* Call: receive() looks its channel up again and blocks on it *)
| LDeliver (i : N) (p : payload)     (* Serve reads a reply with id i and routes it *)
| LWake (c : N)                      (* the waiting call takes the message from its channel *)
| LCancel (c : N).                   (* the call's context ends *)

(* the oldest entry that may be discarded *)
Fixpoint oldest (fixed : bool) (m : amap pentry) (best : option (N * nat)) : option (N * nat) :=
  match m with
  | [] => best
  | (k, e) :: rest =>
      if fixed && pe_waiting e then oldest fixed rest best
      else match best with
           | Some (_, a) => if (pe_age e <? a)%nat then oldest fixed rest (Some (k, pe_age e)) else oldest fixed rest best
           | None => oldest fixed rest (Some (k, pe_age e))
           end
  end.
Fixpoint discard_n (fixed : bool) (n : nat) (m : amap pentry) : amap pentry :=
  match n with
  | O => m
  | S n' => match oldest fixed m None with
            | Some (k, _) => discard_n fixed n' (adel k m)
            | None => m
            end
  end.

Definition clean (fixed : bool) (limit discard : nat) (m : amap pentry) : amap pentry :=
  if (0 <? limit)%nat && (limit <=? length m)%nat && (0 <? discard)%nat then discard_n fixed discard m else m.

Fixpoint buf_get (i : N) (g : nat) (b : list (N * nat * payload)) : option payload :=
  match b with
  | [] => None
  | (i', g', p) :: r => if N.eqb i i' && Nat.eqb g g' then Some p else buf_get i g r
  end.
Fixpoint buf_del (i : N) (g : nat) (b : list (N * nat * payload)) : list (N * nat * payload) :=
  match b with
  | [] => []
  | (i', g', p) :: r => if N.eqb i i' && Nat.eqb g g' then r else (i', g', p) :: buf_del i g r
  end.

(* Call registers as waiting (waitPending before the request is written; the pinned code has no
   such step: there this is the single lookup of receive()) *)
Definition reg_step (fixed : bool) (limit discard : nat) (s : rst) (c : N) : option rst :=
  match aget c (r_calls s) with
  | Some _ => None                       (* ids are fresh: a call starts waiting once *)
  | None =>
      let m := clean fixed limit discard (r_pending s) in
      match aget c m with
      | Some e =>                         (* the reply arrived first: its channel is there *)
          Some {| r_pending := aset c {| pe_gen := pe_gen e; pe_waiting := true; pe_age := pe_age e |} m;
                  r_bufs := r_bufs s; r_gen := r_gen s; r_age := r_age s;
                  r_calls := aset c (PWaiting (pe_gen e)) (r_calls s); r_delivered := r_delivered s |}
      | None =>
          Some {| r_pending := aset c {| pe_gen := r_gen s; pe_waiting := true; pe_age := r_age s |} m;
                  r_bufs := r_bufs s; r_gen := S (r_gen s); r_age := S (r_age s);
                  r_calls := aset c (PWaiting (r_gen s)) (r_calls s); r_delivered := r_delivered s |}
      end
  end.

(* receive(): the repaired Call looks its channel up a second time (running the discard rule
   again) and waits on whatever channel the table then holds for its id — a fresh one if its
   entry is gone *)
Definition recv_step (fixed : bool) (limit discard : nat) (s : rst) (c : N) : option rst :=
  match aget c (r_calls s) with
  | Some (PWaiting _) =>
      if fixed then
        let m := clean fixed limit discard (r_pending s) in
        match aget c m with
        | Some e =>
            Some {| r_pending := aset c {| pe_gen := pe_gen e; pe_waiting := true; pe_age := pe_age e |} m;
                    r_bufs := r_bufs s; r_gen := r_gen s; r_age := r_age s;
                    r_calls := aset c (PWaiting (pe_gen e)) (r_calls s); r_delivered := r_delivered s |}
        | None =>
            Some {| r_pending := aset c {| pe_gen := r_gen s; pe_waiting := true; pe_age := r_age s |} m;
                    r_bufs := r_bufs s; r_gen := S (r_gen s); r_age := S (r_age s);
                    r_calls := aset c (PWaiting (r_gen s)) (r_calls s); r_delivered := r_delivered s |}
        end
      else Some s
  | _ => None
  end.

(* None = the transition is not enabled (or Serve would block on a full channel) *)
Definition rstep (fixed : bool) (limit discard : nat) (s : rst) (l : lab) : option rst :=
  match l with
  | LStartWait c =>
      match reg_step fixed limit discard s c with
      | Some s1 => recv_step fixed limit discard s1 c
      | None => None
      end
  | LRegister c => reg_step fixed limit discard s c
  | LReceive c => recv_step fixed limit discard s c
  | LDeliver i p =>
      let m := clean fixed limit discard (r_pending s) in
      let '(g, m', gen', age') :=
        match aget i m with
        | Some e => (pe_gen e, m, r_gen s, r_age s)
        | None => (r_gen s, aset i {| pe_gen := r_gen s; pe_waiting := false; pe_age := r_age s |} m, S (r_gen s), S (r_age s))
        end in
      match buf_get i g (r_bufs s) with
      | Some _ => None                       (* channel full: Serve blocks *)
      | None => Some {| r_pending := m'; r_bufs := (i, g, p) :: r_bufs s; r_gen := gen'; r_age := age';
                        r_calls := r_calls s; r_delivered := (i, p) :: r_delivered s |}
      end
  | LWake c =>
      match aget c (r_calls s) with
      | Some (PWaiting g) =>
          match buf_get c g (r_bufs s) with
          | Some p => Some {| r_pending := adel c (r_pending s); r_bufs := buf_del c g (r_bufs s);
                              r_gen := r_gen s; r_age := r_age s;
                              r_calls := aset c (PDone (CPayload p)) (r_calls s); r_delivered := r_delivered s |}
          | None => None
          end
      | _ => None
      end
  | LCancel c =>
      match aget c (r_calls s) with
      | Some (PWaiting g) =>
          Some {| r_pending := if fixed then adel c (r_pending s) else r_pending s;
                  r_bufs := r_bufs s; r_gen := r_gen s; r_age := r_age s;
                  r_calls := aset c (PDone CCtxErr) (r_calls s); r_delivered := r_delivered s |}
      | _ => None
      end
  end.

(* run a trace, skipping labels that are not enabled *)
Fixpoint rrun (fixed : bool) (limit discard : nat) (s : rst) (t : list lab) : rst :=
  match t with
  | [] => s
  | l :: r => match rstep fixed limit discard s l with
              | Some s' => rrun fixed limit discard s' r
              | None => rrun fixed limit discard s r
              end
  end.
