(* ClaimProofs.v — at most one keep-alive loop under concurrent Start/Stop. *)
From VP Require Import Base Claim.

Lemma cphase_of_set s' s t p : c_calls s' = aset t p (c_calls s) ->
  forall t', cphase_of s' t' = if N.eqb t' t then p else cphase_of s t'.
Proof. intros H t'. unfold cphase_of. rewrite H, aget_aset. destruct (N.eqb t' t); reflexivity. Qed.

(* claims in flight plus running loops are one when started is set and none otherwise; two
   calls that both hold a claim are the same call *)
Definition CInv (s : cst) : Prop :=
  (forall t1 t2, cphase_of s t1 = CClaimed -> cphase_of s t2 = CClaimed -> t1 = t2) /\
  (forall t, cphase_of s t <> CChecked) /\
  (c_started s = false -> c_loops s = 0%nat /\ forall t, cphase_of s t <> CClaimed) /\
  (c_started s = true -> (c_loops s = 1%nat /\ forall t, cphase_of s t <> CClaimed) \/
                         (c_loops s = 0%nat /\ exists t, cphase_of s t = CClaimed)).

Lemma CInv_0 : CInv cst0.
Proof.
  unfold CInv; split; [|split; [|split]]; unfold cphase_of; cbn.
  - intros t1 t2 H. discriminate.
  - intros t. discriminate.
  - intros _. split; [reflexivity|]. intros t. discriminate.
  - intros H. discriminate.
Qed.

Ltac cinv_split := unfold CInv; split; [|split; [|split]].

Lemma CInv_step s o s' : CInv s -> cstep true s o = Some s' -> CInv s'.
Proof.
  intros (Huniq & Hnochk & Hoff & Hon) Hs. destruct o as [t|t|t|t|]; cbn in Hs.
  - (* enter *)
    destruct (cphase_of s t) eqn:Hp; try discriminate.
    destruct (c_started s) eqn:Hst; injection Hs as <-.
    + set (s1 := {| c_started := true; c_loops := c_loops s; c_calls := setp s t CRefused |}).
      pose proof (cphase_of_set s1 s t CRefused eq_refl) as Hph.
      assert (Hsame : forall t', cphase_of s1 t' = CClaimed <-> cphase_of s t' = CClaimed).
      { intros t'. rewrite Hph. destruct (N.eqb_spec t' t) as [->|_]; [rewrite Hp; split; discriminate|tauto]. }
      cinv_split.
      * intros t1 t2 H1 H2. apply Hsame in H1, H2. now apply Huniq.
      * intros t'. rewrite Hph. destruct (N.eqb t' t); [discriminate|apply Hnochk].
      * intros Hf. cbn in Hf. discriminate.
      * intros _. cbn [c_loops s1]. destruct (Hon eq_refl) as [[Hl Hn]|[Hl [t' Ht']]].
        -- left. split; [exact Hl|]. intros t' Hc. apply Hsame in Hc. now apply (Hn t').
        -- right. split; [exact Hl|]. exists t'. now apply Hsame.
    + set (s1 := {| c_started := true; c_loops := c_loops s; c_calls := setp s t CClaimed |}).
      pose proof (cphase_of_set s1 s t CClaimed eq_refl) as Hph.
      destruct (Hoff eq_refl) as [Hl Hn].
      cinv_split.
      * intros t1 t2. rewrite (Hph t1), (Hph t2).
        destruct (N.eqb_spec t1 t) as [->|_]; destruct (N.eqb_spec t2 t) as [->|_]; auto;
          try (intros _ Hc; now apply Hn in Hc); try (intros Hc; now apply Hn in Hc).
      * intros t'. rewrite Hph. destruct (N.eqb t' t); [discriminate|apply Hnochk].
      * intros Hf. cbn in Hf. discriminate.
      * intros _. right. cbn [c_loops s1]. split; [exact Hl|]. exists t. now rewrite Hph, N.eqb_refl.
  - (* set: never enabled in the atomic shape *)
    destruct (cphase_of s t) eqn:Hp; try discriminate. now apply Hnochk in Hp.
  - (* fail *)
    destruct (cphase_of s t) eqn:Hp; try discriminate. injection Hs as <-.
    set (s1 := {| c_started := false; c_loops := c_loops s; c_calls := setp s t CFailed |}).
    pose proof (cphase_of_set s1 s t CFailed eq_refl) as Hph.
    assert (Hst : c_started s = true).
    { destruct (c_started s) eqn:E; auto. destruct (Hoff eq_refl) as [_ Hn]. now apply Hn in Hp. }
    destruct (Hon Hst) as [[Hl Hn]|[Hl _]]; [now apply Hn in Hp|].
    cinv_split.
    + intros t1 t2. rewrite (Hph t1), (Hph t2).
      destruct (N.eqb_spec t1 t) as [->|_]; [discriminate|]. destruct (N.eqb_spec t2 t) as [->|_]; [discriminate|]. apply Huniq.
    + intros t'. rewrite Hph. destruct (N.eqb t' t); [discriminate|apply Hnochk].
    + intros _. split; [exact Hl|]. intros t'. rewrite Hph. destruct (N.eqb_spec t' t) as [->|Hne]; [discriminate|].
      intros Hc. apply Hne. now apply Huniq.
    + intros Hf. cbn in Hf. discriminate.
  - (* ok: the loop starts *)
    destruct (cphase_of s t) eqn:Hp; try discriminate. injection Hs as <-.
    set (s1 := {| c_started := c_started s; c_loops := S (c_loops s); c_calls := setp s t CRunning |}).
    pose proof (cphase_of_set s1 s t CRunning eq_refl) as Hph.
    assert (Hst : c_started s = true).
    { destruct (c_started s) eqn:E; auto. destruct (Hoff eq_refl) as [_ Hn]. now apply Hn in Hp. }
    destruct (Hon Hst) as [[Hl Hn]|[Hl _]]; [now apply Hn in Hp|].
    assert (Hnone : forall t', cphase_of s1 t' <> CClaimed).
    { intros t'. rewrite Hph. destruct (N.eqb_spec t' t) as [->|Hne]; [discriminate|].
      intros Hc. apply Hne. now apply Huniq. }
    cinv_split.
    + intros t1 t2 H1. now apply Hnone in H1.
    + intros t'. rewrite Hph. destruct (N.eqb t' t); [discriminate|apply Hnochk].
    + intros Hf. cbn [c_started s1] in Hf. congruence.
    + intros _. left. cbn [c_loops s1]. split; [lia|exact Hnone].
  - (* stop *)
    destruct (c_loops s) as [|n] eqn:Hl; [discriminate|]. injection Hs as <-.
    assert (Hst : c_started s = true).
    { destruct (c_started s) eqn:E; auto. destruct (Hoff eq_refl) as [H0 _]. lia. }
    destruct (Hon Hst) as [[Hl1 Hn]|[Hl0 _]]; [|lia].
    cinv_split.
    + exact Huniq.
    + exact Hnochk.
    + intros _. cbn. split; [lia|exact Hn].
    + intros Hf. cbn in Hf. discriminate.
Qed.

Lemma CInv_run ops : forall s, CInv s -> CInv (crun true s ops).
Proof.
  induction ops as [|o r IH]; intros s H; cbn; auto.
  destruct (cstep true s o) eqn:Hs; [apply IH; eapply CInv_step; eauto|auto].
Qed.

(* whatever Start and Stop calls overlap, in whatever order their steps are taken, and wherever
   the pool fails a registration: never more than one keep-alive loop, and never a loop together
   with a claim in flight *)
Theorem one_loop ops :
  let s := crun true cst0 ops in
  (c_loops s <= 1)%nat /\ (c_loops s = 1%nat -> claimers s = []) /\ (c_started s = false -> c_loops s = 0%nat).
Proof.
  intros s. destruct (CInv_run ops cst0 CInv_0) as (_ & _ & Hoff & Hon). fold s in Hoff, Hon.
  destruct (c_started s) eqn:Hst.
  - destruct (Hon eq_refl) as [[Hl Hn]|[Hl _]].
    + repeat split; try lia; try discriminate. intros _. unfold claimers.
      induction (akeys (c_calls s)) as [|k r IH]; cbn; auto. unfold claimed at 1.
      destruct (cphase_of s k) eqn:Hk; auto. now apply Hn in Hk.
    + repeat split; try lia; discriminate.
  - destruct (Hoff eq_refl) as [Hl _]. repeat split; lia.
Qed.

(* a Start that arrives while nothing is claimed or running gets the claim, and becomes the loop
   when the pool accepts it; one that arrives while the agent is claimed or running is refused *)
Theorem start_outcomes ops t :
  let s := crun true cst0 ops in
  cphase_of s t = CIdle ->
  exists s1, cstep true s (KEnter t) = Some s1 /\
    (c_started s = true -> cphase_of s1 t = CRefused /\ c_loops s1 = c_loops s) /\
    (c_started s = false -> cphase_of s1 t = CClaimed /\
        exists s2, cstep true s1 (KOk t) = Some s2 /\ c_loops s2 = 1%nat /\ cphase_of s2 t = CRunning).
Proof.
  intros s Hp. destruct (CInv_run ops cst0 CInv_0) as (_ & _ & Hoff & _). fold s in Hoff.
  cbn. rewrite Hp. destruct (c_started s) eqn:Hst; eexists; (split; [reflexivity|]); split; try discriminate.
  - intros _. unfold cphase_of, setp. cbn. now rewrite aget_aset_same.
  - intros _. destruct (Hoff eq_refl) as [Hl _]. unfold cphase_of, setp. cbn. rewrite aget_aset_same. split; [reflexivity|].
    eexists. split; [reflexivity|]. cbn. rewrite aget_aset_same. split; [lia|reflexivity].
Qed.

(* the split shape (test in one critical section, set in a later one) is refuted: two calls both
   see started = false, both claim, both start a loop; one Stop leaves a loop running *)
Definition split_trace : list cop := [KEnter 1; KEnter 2; KSet 1; KSet 2; KOk 1; KOk 2]%N.
Theorem split_start_refuted :
  c_loops (crun false cst0 split_trace) = 2%nat /\
  c_loops (crun false cst0 (split_trace ++ [KStop])) = 1%nat /\
  c_loops (crun true cst0 split_trace) = 1%nat /\
  cphase_of (crun true cst0 split_trace) 2%N = CRefused.
Proof. vm_compute. auto. Qed.
