(* Retry.v — reading a record back the way the persistent driver does (pool/store/badger
   helpers.go getItem: gob.Decode INTO a value), inside a transaction that the driver's update()
   runs again after a conflict.  gob does not store zero values and leaves the fields that are
   absent from the stored bytes as they are in the target.  [fresh]: the value decoded into is
   declared inside the retried closure (a zero value on every attempt); otherwise it lives outside
   and the second attempt decodes over what the first attempt left in it (D31). *)
From VP Require Import Base.

Record nrec := { r_host : bool; r_uri : N; r_kind : N; r_payout : N; r_seen : Z; r_block : N }.
Definition nzero : nrec := {| r_host := false; r_uri := 0; r_kind := 0; r_payout := 0; r_seen := 0; r_block := 0 |}.

(* decode [stored] into [target]: absent (zero) fields keep the target's value *)
Definition dec_into (target stored : nrec) : nrec :=
  {| r_host := if r_host stored then true else r_host target;
     r_uri := if N.eqb (r_uri stored) 0 then r_uri target else r_uri stored;
     r_kind := if N.eqb (r_kind stored) 0 then r_kind target else r_kind stored;
     r_payout := if N.eqb (r_payout stored) 0 then r_payout target else r_payout stored;
     r_seen := if Z.eqb (r_seen stored) 0 then r_seen target else r_seen stored;
     r_block := if N.eqb (r_block stored) 0 then r_block target else r_block stored |}.

(* what a keep-alive does to the record it has read *)
Definition keepalive (now : Z) (blk : N) (r : nrec) : nrec :=
  {| r_host := r_host r; r_uri := r_uri r; r_kind := r_kind r; r_payout := r_payout r; r_seen := now; r_block := blk |}.

(* a keep-alive whose first attempt read [s1] and was aborted by a conflict, and whose second
   attempt finds [s2] in the store: what it writes *)
Definition retried_keepalive (fresh : bool) (now : Z) (blk : N) (s1 s2 : nrec) : nrec :=
  let after_first := keepalive now blk (dec_into nzero s1) in
  let target := if fresh then nzero else after_first in
  keepalive now blk (dec_into target s2).

Lemma dec_into_zero s : dec_into nzero s = s.
Proof.
  destruct s as [h u k p t b]; unfold dec_into, nzero; cbn.
  destruct h; destruct (N.eqb_spec u 0), (N.eqb_spec k 0), (N.eqb_spec p 0), (Z.eqb_spec t 0), (N.eqb_spec b 0); subst; reflexivity.
Qed.

(* with a fresh value per attempt the retried keep-alive is the keep-alive of what the store
   holds NOW: whatever the aborted attempt had read leaves no trace *)
Theorem fresh_target_reads_the_store now blk s1 s2 :
  retried_keepalive true now blk s1 s2 = keepalive now blk s2.
Proof. unfold retried_keepalive. now rewrite dec_into_zero. Qed.

(* with the value kept across attempts, a host that registered again as a light client (no
   address, no kind, no payout) between the two attempts is written back as a host at its old
   address *)
Theorem stale_target_restores_old_fields :
  let host := {| r_host := true; r_uri := 7; r_kind := 1; r_payout := 9; r_seen := 100; r_block := 5 |} in
  let client := {| r_host := false; r_uri := 0; r_kind := 0; r_payout := 0; r_seen := 200; r_block := 0 |} in
  retried_keepalive false 300 6 host client = {| r_host := true; r_uri := 7; r_kind := 1; r_payout := 9; r_seen := 300; r_block := 6 |} /\
  retried_keepalive true 300 6 host client = {| r_host := false; r_uri := 0; r_kind := 0; r_payout := 0; r_seen := 300; r_block := 6 |}.
Proof. vm_compute. auto. Qed.
