(* Check04.v — correspondence predicate for C04/C06: the symbolic verification step must take
   the decision the real endpoint took on every request of a session, and a refused request
   must have left no trace. *)
From VP Require Import Base Nonce Auth.

Record c04_req := {
  q_method : N; q_id : N; q_nonce : Z; q_params : N; q_params_old : N;  (* as sent *)
  q_sig : sigv;                                                         (* how the signature was made *)
  q_now : Z;
  q_refused : bool;   (* observed: the endpoint answered with a verification failure *)
  q_trace : bool      (* observed: state digest changed, or a host was called *)
}.
Record c04_case := { c4_E : Z; c4_wallets : list N; c4_reqs : list c04_req }.

Definition c04_pub (k : N) : N := k.   (* the harness numbers every key like its identity *)

Fixpoint c04_run (E : Z) (ws : list N) (nonces : amap Z) (rs : list c04_req) (k : nat) : option nat :=
  match rs with
  | [] => None
  | q :: rest =>
      let r := {| rq_method := q_method q; rq_sig := q_sig q; rq_id := q_id q; rq_nonce := q_nonce q;
                  rq_params := q_params q; rq_params_old := q_params_old q; rq_now := q_now q |} in
      let '(n', ok) := verify_req c04_pub (fun i => memb i ws) E nonces r in
      if Bool.eqb (negb ok) (q_refused q) && (ok || negb (q_trace q))
      then c04_run E ws n' rest (S k) else Some k
  end.

Definition c04_check (c : c04_case) : bool :=
  match c04_run (c4_E c) (c4_wallets c) [] (c4_reqs c) 0 with None => true | Some _ => false end.
Definition c04_diag (c : c04_case) : Z :=
  match c04_run (c4_E c) (c4_wallets c) [] (c4_reqs c) 0 with None => -1 | Some k => Z.of_nat k end.
