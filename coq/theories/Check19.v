(* Check19.v — correspondence predicate for C19. *)
From VP Require Import Base NodeURI.

Definition bs (l : list Z) : str := map Z.to_N l.

Record c19_case := {
  c19_ov : override; c19_id : str; c19_dh : str;
  (* observed: None = registration refused; Some (id, parsed) where parsed is what
     net.SplitHostPort makes of the advertised host:port (None = does not parse) *)
  c19_obs : option (str * option (str * str))
}.

Definition c19_check (c : c19_case) : bool :=
  match normalize (c19_ov c) (c19_id c) (c19_dh c), c19_obs c with
  | NErr, None => true
  | NOk id h p, Some (id', Some (h', p')) => str_eqb id id' && str_eqb h h' && str_eqb p p'
  | _, _ => false
  end.
