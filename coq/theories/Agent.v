(* Agent.v — one keep-alive round of the agent (agent/agent.go UpdatePeers 213-303, AddPeers
   306-340) as a function from what the node and the pool answer to the calls the agent makes
   on its node and on the pool.  Parsing of enode strings (net/url) is an input: every peer
   reference arrives as (parsed?, id, remote host), remote host 0 = none (loopback, unspecified,
   localhost, or no address).  No proofs in this file. *)
From VP Require Import Base.

Record pref := { pf_ok : bool; pf_id : N; pf_host : N }.   (* a parsed peer reference *)

Inductive acall :=
| CRemoveTrusted (id : N)
| CDisconnect (id : N)
| CPeerRequest (num : Z) (kind : N)
| CConnect (uri : N).

Inductive pool_peer_reply :=
| PeerOk (uris : list N)        (* hosts returned, by URI *)
| PeerNoPeers                   (* an RPC internal error: treated as "no peers for now" *)
| PeerFailed.                   (* any other error *)

Inductive pool_update_reply :=
| UpdateFailed
| UpdateOk (active : list pref) (invalid : list pref).   (* ActivePeers / InvalidPeers *)

Record acfg := { ac_strict : bool; ac_target : Z; ac_full_node : bool; ac_kind : N }.

Inductive aresult := AOk | AErrNode | AErrPool | AErrDisconnect.

(* the strict-mode lookup: id -> remote host of the LAST active entry with that id *)
Fixpoint strict_lookup (active : list pref) (m : amap N) : amap N :=
  match active with
  | [] => m
  | a :: rest => strict_lookup rest (if pf_ok a then aset (pf_id a) (pf_host a) m else m)
  end.

Definition strict_match (lk : amap N) (p : pref) : bool :=
  pf_ok p && match aget (pf_id p) lk with Some h => N.eqb (pf_host p) h | None => false end.

(* ids the agent un-trusts and disconnects: everything the pool declared invalid, plus (strict
   peering) every local peer the pool does not list as active under the same host *)
Definition drop_list (cfg : acfg) (locals : list pref) (active invalid : list pref) : list N :=
  let declared := map pf_id invalid in
  if ac_strict cfg then
    let lk := strict_lookup active [] in
    declared ++ map pf_id (filter (fun p => negb (strict_match lk p) && negb (memb (pf_id p) declared)) locals)
  else declared.

(* node_fail k: the node's k-th RemoveTrusted/Disconnect call fails (recorded, not fatal) *)
Definition drop_calls (ids : list N) : list acall :=
  flat_map (fun i => [CRemoveTrusted i; CDisconnect i]) ids.

Definition add_peers (cfg : acfg) (num : Z) (pr : pool_peer_reply) (connect_fails_at : option nat)
  : list acall * aresult :=
  let kind := if ac_full_node cfg then 0%N else ac_kind cfg in
  match pr with
  | PeerNoPeers => ([CPeerRequest num kind], AOk)
  | PeerFailed => ([CPeerRequest num kind], AErrPool)
  | PeerOk uris =>
      match connect_fails_at with
      | Some k => if (k <? length uris)%nat
                  then (CPeerRequest num kind :: map CConnect (firstn (S k) uris), AErrNode)
                  else (CPeerRequest num kind :: map CConnect uris, AOk)
      | None => (CPeerRequest num kind :: map CConnect uris, AOk)
      end
  end.

Definition update_round (cfg : acfg) (node_ok : bool) (locals : list pref) (ur : pool_update_reply)
           (drop_errors : bool) (pr : pool_peer_reply) (connect_fails_at : option nat)
  : list acall * aresult :=
  if negb node_ok then ([], AErrNode)
  else match ur with
       | UpdateFailed => ([], AErrPool)
       | UpdateOk active invalid =>
           let drops := drop_calls (drop_list cfg locals active invalid) in
           (* a failing drop call is recorded and reported at the end of the round *)
           let derr := drop_errors && match drops with [] => false | _ => true end in
           let need := ac_target cfg - Z.of_nat (length active) in
           if 0 <? need then
             let '(calls, r) := add_peers cfg need pr connect_fails_at in
             match r with
             | AOk => (drops ++ calls, if derr then AErrDisconnect else AOk)
             | e => (drops ++ calls, e)
             end
           else (drops, if derr then AErrDisconnect else AOk)
       end.
