(* ReqHostsProofs.v — theorems for C09 (registry) and C08 (peer requests). *)
From VP Require Import Base Nonce Store StoreProofs ReqHosts.

(* ------------------------------------------------------------------ registry *)
Lemma aget_filter_neq (r : registry) c h :
  NoDup (akeys r) ->
  aget h (filter (fun kv => negb (N.eqb (snd kv) c)) r) =
  match aget h r with Some c' => if N.eqb c' c then None else Some c' | None => None end.
Proof.
  induction r as [|[k v] r IH]; cbn; auto. intros Hnd. inversion Hnd as [|? ? Hn Hd]; subst.
  destruct (N.eqb_spec v c) as [->|Hne]; cbn.
  - destruct (N.eqb_spec h k) as [->|Hhk].
    + rewrite IH by assumption. rewrite N.eqb_refl.
      destruct (aget k r) eqn:Hg; auto. apply aget_in in Hg. exfalso. apply Hn.
      change k with (fst (k, n)). now apply in_map.
    + now apply IH.
  - destruct (N.eqb_spec h k) as [->|Hhk].
    + destruct (N.eqb_spec v c); [contradiction|reflexivity].
    + now apply IH.
Qed.

Lemma nodup_filter_keys (r : registry) f : NoDup (akeys r) -> NoDup (akeys (filter f r)).
Proof.
  induction r as [|x r IH]; cbn; auto. intros H. inversion H as [|? ? Hn Hd]; subst.
  destruct (f x); cbn; auto. constructor; auto.
  intros Hin. apply Hn. unfold akeys in *. apply in_map_iff in Hin as [y [Hy Hin]].
  apply filter_In in Hin as [Hin _]. apply in_map_iff. eauto.
Qed.

Lemma reg_step_nodup r e : NoDup (akeys r) -> NoDup (akeys (reg_step r e)).
Proof. destruct e; cbn; [apply akeys_aset_nodup|apply nodup_filter_keys]. Qed.

Definition reg_rel (r : registry) (s : rspec) : Prop :=
  NoDup (akeys r) /\ forall h, aget h r = instructable s h.

Lemma reg_rel_step r s e :
  reg_rel r s -> match e with RRegister _ c => memb c (sp_closed s) = false | RClose _ => True end ->
  reg_rel (reg_step r e) (spec_step s e).
Proof.
  intros [Hnd Hrel] Hwf. split; [now apply reg_step_nodup|]. intros h.
  destruct e as [h' c|c]; cbn [reg_step spec_step]; unfold instructable; cbn [sp_latest sp_closed].
  - rewrite !aget_aset. destruct (N.eqb h h'); [now rewrite Hwf|apply Hrel].
  - rewrite aget_filter_neq by assumption. rewrite Hrel. unfold instructable.
    destruct (aget h (sp_latest s)) as [c'|]; auto. cbn [memb existsb].
    rewrite (N.eqb_sym c' c).
    destruct (memb c' (sp_closed s)) eqn:Hm; unfold memb in Hm; rewrite Hm.
    + now rewrite orb_true_r.
    + rewrite orb_false_r, (N.eqb_sym c c'). reflexivity.
Qed.

Lemma reg_rel_run evs : forall r s, reg_rel r s -> wf_from s evs ->
  reg_rel (fold_left reg_step evs r) (fold_left spec_step evs s).
Proof.
  induction evs as [|e evs IH]; intros r s Hrel Hwf; cbn [fold_left]; auto.
  destruct Hwf as [He Hwf]. apply IH; auto. now apply reg_rel_step.
Qed.

(* C09: for every history, a host is instructable — and on which connection — iff the connection
   it most recently registered on is still open *)
Theorem registry_iff evs h :
  wf_from {| sp_latest := []; sp_closed := [] |} evs ->
  aget h (reg_run evs) = instructable (spec_run evs) h.
Proof.
  intros Hwf. unfold reg_run, spec_run.
  apply (reg_rel_run evs [] {| sp_latest := []; sp_closed := [] |}); auto.
  split; [constructor|reflexivity].
Qed.

(* after a connection closes no host is instructable through it *)
Theorem no_dead_connection r c h : NoDup (akeys r) -> aget h (reg_step r (RClose c)) <> Some c.
Proof.
  intros Hnd. cbn. rewrite aget_filter_neq by assumption.
  destruct (aget h r) as [c'|]; [|discriminate].
  destruct (N.eqb_spec c' c); [discriminate|]. congruence.
Qed.

(* closing any other connection leaves a host's registration alone: in particular closing the
   old connection of a host that has reconnected does not unregister the new one *)
Theorem close_other_keeps r c c2 h :
  NoDup (akeys r) -> aget h r = Some c2 -> c2 <> c -> aget h (reg_step r (RClose c)) = Some c2.
Proof.
  intros Hnd Hg Hne. cbn. rewrite aget_filter_neq, Hg by assumption.
  destruct (N.eqb_spec c2 c); [contradiction|reflexivity].
Qed.

(* the count of connected hosts: one entry per distinct host with a live registration *)
Theorem registry_count evs :
  NoDup (akeys (reg_run evs)).
Proof.
  unfold reg_run. assert (H : NoDup (akeys ([] : registry))) by constructor.
  revert H. generalize ([] : registry). induction evs as [|e evs IH]; intros r H; cbn; auto.
  apply IH. now apply reg_step_nodup.
Qed.

(* the pinned variant is refuted: reconnect on a new connection, then the old one closes *)
Theorem registry_pinned_refuted :
  let evs := [RRegister 1 10; RRegister 1 20; RClose 10]%N in
  aget 1%N (r2_hosts (fold_left reg2_step evs {| r2_hosts := []; r2_lookup := [] |})) = None /\
  aget 1%N (reg_run evs) = Some 20%N /\ instructable (spec_run evs) 1%N = Some 20%N.
Proof. vm_compute. auto. Qed.

(* ------------------------------------------------------------------ requestHosts *)
Lemma firstn_In {A} (x : A) n l : In x (firstn n l) -> In x l.
Proof.
  revert l. induction n as [|n IH]; intros l; cbn; [tauto|]. destruct l as [|y l]; cbn; [tauto|].
  intros [->|H]; auto.
Qed.
Lemma filter_len_le {A} (f : A -> bool) l : (length (filter f l) <= length l)%nat.
Proof. induction l as [|x l IH]; cbn; auto. destruct (f x); cbn; lia. Qed.
Lemma forallb_filter_same {A} (f : A -> bool) l : forallb f l = true -> filter f l = l.
Proof.
  induction l as [|x l IH]; cbn; auto. intros H. apply andb_true_iff in H as [Hx Hl].
  rewrite Hx. f_equal. auto.
Qed.

Section RH.
  Variables (X now : Z) (st : sstate) (reg : registry) (maxh : Z) (self : N) (num : Z) (kind : N).
  Variables (chosen : list N) (outs : amap outcome).
  Let n := effective_num maxh num.
  Let out := request_hosts st reg maxh self num chosen outs.
  Hypothesis Hstore : store_answer_ok X now st kind (n + Z.of_nat (S (length (akeys (peers_of st self))))) chosen.

  Lemma reply_sub_calls h : In h (rh_reply out) -> In h (rh_calls out).
  Proof.
    unfold out, request_hosts. fold n. destruct (n <=? 0); [intros []|].
    destruct (negb (registered st self)); [intros []|]. cbn. intros H. now apply filter_In in H.
  Qed.

  Lemma calls_spec h : In h (rh_calls out) ->
    In h chosen /\ h <> self /\ ~ In h (akeys (peers_of st self)) /\ amem h reg = true.
  Proof.
    unfold out, request_hosts. fold n. destruct (n <=? 0); [intros []|].
    destruct (negb (registered st self)); [intros []|]. cbn [rh_calls]. intros H.
    apply firstn_In in H. apply filter_In in H as [Hin Hf].
    apply andb_true_iff in Hf as [Hs Hr]. apply negb_true_iff in Hs.
    split; auto. split; [|split]; auto.
    - intros ->. cbn in Hs. now rewrite N.eqb_refl in Hs.
    - intros Hp. assert (memb h (self :: akeys (peers_of st self)) = true) by (apply memb_In; now right). congruence.
  Qed.

  (* every returned host is an active full-node host of the requested kind, not the requester,
     not already its peer, currently connected, and acknowledged the whitelist instruction *)
  Theorem reply_eligible h : In h (rh_reply out) ->
    (exists nd, In nd (map snd (s_nodes st)) /\ n_id nd = h /\ n_host nd = true /\
                (kind = 0%N \/ n_kind nd = kind) /\ now - X < n_seen nd) /\
    h <> self /\ ~ In h (akeys (peers_of st self)) /\ amem h reg = true /\ outcome_of outs h = Ack /\
    In h (rh_calls out).
  Proof.
    intros Hin. pose proof (reply_sub_calls h Hin) as Hc. destruct (calls_spec h Hc) as (Hch & Hs & Hp & Hr).
    split; [|repeat split; auto].
    - destruct Hstore as (_ & Hsub & _). apply Hsub in Hch. apply in_map_iff in Hch as [nd [Hid Hnd]].
      apply filter_In in Hnd as [Hnd He]. unfold eligible_host, active in He.
      apply andb_true_iff in He as [He Ha]. apply andb_true_iff in He as [Hh Hk].
      exists nd. repeat split; auto.
      + apply orb_true_iff in Hk as [Hk|Hk]; apply N.eqb_eq in Hk; auto.
      + now apply Z.ltb_lt.
    - unfold out, request_hosts in Hin. fold n in Hin. destruct (n <=? 0); [destruct Hin|].
      destruct (negb (registered st self)); [destruct Hin|]. cbn in Hin. apply filter_In in Hin as [_ Ha].
      unfold is_ack in Ha. now destruct (outcome_of outs h).
  Qed.

  (* hosts that fail or do not answer in time are left out *)
  Theorem failed_left_out h : outcome_of outs h <> Ack -> ~ In h (rh_reply out).
  Proof. intros Hn Hin. apply reply_eligible in Hin. tauto. Qed.

  (* never more hosts than asked for, nor than the configured maximum; none for a zero or
     negative request *)
  Theorem reply_count :
    (Z.of_nat (length (rh_reply out)) <= Z.max 0 num) /\
    (0 < maxh -> Z.of_nat (length (rh_reply out)) <= maxh) /\
    (num <= 0 -> rh_reply out = [] /\ rh_calls out = [] /\ rh_err_of out = RhNone).
  Proof.
    assert (Hn : n <= num /\ (0 < maxh -> n <= maxh)).
    { unfold n, effective_num. destruct (Z.ltb_spec 0 maxh); cbn; [destruct (Z.ltb_spec maxh num)|]; lia. }
    assert (Hlen : Z.of_nat (length (rh_reply out)) <= Z.max 0 n).
    { unfold out, request_hosts. fold n. destruct (Z.leb_spec n 0); [cbn; lia|].
      destruct (negb (registered st self)); [cbn; lia|]. cbn [rh_reply].
      pose proof (filter_len_le (fun h => is_ack (outcome_of outs h))
                    (firstn (Z.to_nat n) (filter (fun h => negb (memb h (self :: akeys (peers_of st self))) && amem h reg) chosen))).
      rewrite firstn_length in H0. lia. }
    split; [lia|]. split; [lia|].
    intros Hle. unfold out, request_hosts. fold n. replace (n <=? 0) with true by (symmetry; apply Z.leb_le; lia).
    auto.
  Qed.

  (* an error is returned only when no host could be provided *)
  Theorem error_iff_empty : 0 < n -> registered st self = true ->
    (rh_err_of out = RhNone <-> rh_reply out <> []).
  Proof.
    intros Hpos Hreg. unfold out, request_hosts. fold n.
    replace (n <=? 0) with false by (symmetry; apply Z.leb_gt; lia). rewrite Hreg. cbn [negb rh_err_of rh_reply].
    destruct (filter _ _) as [|a l]; [|split; [discriminate|auto]].
    split; [|congruence]. destruct (forallb _ _); discriminate.
  Qed.

  (* when every active host of the requested kind is eligible and acknowledges, the reply holds
     exactly as many hosts as requested, up to the maximum and the supply *)
  Theorem reply_exact : 0 < n -> registered st self = true ->
    (forall h, In h chosen -> h <> self /\ ~ In h (akeys (peers_of st self)) /\ amem h reg = true /\ outcome_of outs h = Ack) ->
    length (rh_reply out) = Nat.min (Z.to_nat n) (length chosen).
  Proof.
    intros Hpos Hreg Hall. unfold out, request_hosts. fold n.
    replace (n <=? 0) with false by (symmetry; apply Z.leb_gt; lia). rewrite Hreg. cbn [negb rh_reply].
    assert (Hf : filter (fun h => negb (memb h (self :: akeys (peers_of st self))) && amem h reg) chosen = chosen).
    { apply forallb_filter_same. apply forallb_forall. intros h Hin. destruct (Hall h Hin) as (Hs & Hp & Hr & _).
      rewrite Hr, andb_true_r. apply negb_true_iff. destruct (memb h _) eqn:Hm; auto.
      apply memb_In in Hm as [->|Hm]; [congruence|contradiction]. }
    rewrite Hf.
    assert (Hg : filter (fun h => is_ack (outcome_of outs h)) (firstn (Z.to_nat n) chosen) = firstn (Z.to_nat n) chosen).
    { apply forallb_filter_same. apply forallb_forall. intros h Hin. apply firstn_In in Hin.
      destruct (Hall h Hin) as (_ & _ & _ & ->). reflexivity. }
    rewrite Hg. apply firstn_length.
  Qed.

  (* in terms of the supply: the active hosts of the requested kind *)
  Theorem reply_exact_supply : 0 < n -> registered st self = true ->
    let supply := map n_id (filter (eligible_host X now kind) (map snd (s_nodes st))) in
    (forall h, In h supply -> h <> self /\ ~ In h (akeys (peers_of st self)) /\ amem h reg = true /\ outcome_of outs h = Ack) ->
    length (rh_reply out) = Nat.min (Z.to_nat n) (length supply).
  Proof.
    intros Hpos Hreg supply Hall. destruct Hstore as (Hnd & Hsub & Hlen).
    rewrite reply_exact; auto.
    - fold supply in Hlen. rewrite Hlen. lia.
  Qed.
End RH.

Theorem client_default_count default requested :
  client_num default requested = if 0 <? requested then requested else default.
Proof. reflexivity. Qed.
