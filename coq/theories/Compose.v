(* Compose.v — the agent's keep-alive round put together with the pool's answer to its peer
   request (C08 + C18, the end-to-end cases of harness/e2e.go): whatever the store answered and
   whichever hosts acknowledged, every host the client's node is told to connect to was sent the
   whitelist instruction for that client and acknowledged it, is connected, is not the client, is
   not already its peer — and the node is told to connect to no more hosts than it was short of. *)
From VP Require Import Base Nonce Store Agent ReqHosts ReqHostsProofs.

(* what the agent sees of the pool's answer: the hosts by address, or (every error of this
   request travels as an internal RPC error) "no peers for now" *)
Definition peer_reply_of (uri_of : N -> N) (o : rh_out) : pool_peer_reply :=
  match rh_err_of o with
  | RhNone => PeerOk (map uri_of (rh_reply o))
  | _ => PeerNoPeers
  end.

Lemma filter_len_le {A} (f : A -> bool) l : (length (filter f l) <= length l)%nat.
Proof. induction l as [|x r IH]; cbn; [lia|]. destruct (f x); cbn; lia. Qed.

Lemma drop_calls_no_connect ids u : ~ In (CConnect u) (drop_calls ids).
Proof.
  unfold drop_calls. intros H. apply in_flat_map in H as [i [_ H]].
  cbn in H. destruct H as [H|[H|[]]]; discriminate.
Qed.

Theorem round_connects_only_whitelisted
  (cfg : acfg) (locals active invalid : list pref) (drop_errors : bool)
  (st : sstate) (reg : registry) (maxh : Z) (self : N) (chosen : list N) (outs : amap outcome) (uri_of : N -> N) :
  let need := ac_target cfg - Z.of_nat (length active) in
  let out := request_hosts st reg maxh self need chosen outs in
  let calls := fst (update_round cfg true locals (UpdateOk active invalid) drop_errors (peer_reply_of uri_of out) None) in
  (forall u, In (CConnect u) calls ->
     exists h, u = uri_of h /\ In h (rh_calls out) /\ is_ack (outcome_of outs h) = true /\
               h <> self /\ amem h reg = true /\ In h chosen /\ memb h (akeys (peers_of st self)) = false) /\
  (Z.of_nat (length (filter (fun c => match c with CConnect _ => true | _ => false end) calls)) <= Z.max 0 need).
Proof.
  cbn zeta. unfold update_round. cbn [negb].
  set (need := ac_target cfg - Z.of_nat (length active)).
  set (drops := drop_calls (drop_list cfg locals active invalid)).
  assert (Hfd : filter (fun c => match c with CConnect _ => true | _ => false end) drops = []).
  { unfold drops, drop_calls. induction (drop_list cfg locals active invalid) as [|i r IH]; cbn; auto. }
  destruct (0 <? need) eqn:Hneed.
  2:{ cbn [fst]. split.
      - intros u H. exfalso. eapply drop_calls_no_connect; exact H.
      - rewrite Hfd. cbn. lia. }
  apply Z.ltb_lt in Hneed.
  set (out := request_hosts st reg maxh self need chosen outs).
  (* shape of the pool's answer *)
  assert (Hshape : forall h, In h (rh_reply out) ->
            In h (rh_calls out) /\ is_ack (outcome_of outs h) = true /\ h <> self /\ amem h reg = true /\ In h chosen /\
            memb h (akeys (peers_of st self)) = false).
  { unfold out, request_hosts. destruct (effective_num maxh need <=? 0); [intros h []|].
    destruct (negb (registered st self)); [intros h []|]. cbn [rh_reply rh_calls].
    intros h Hin. apply filter_In in Hin as [Hrem Hack].
    pose proof (firstn_In h _ _ Hrem) as Hf. apply filter_In in Hf as [Hch Hcond].
    apply andb_true_iff in Hcond as [Hskip Hreg]. apply negb_true_iff in Hskip.
    cbn [memb] in Hskip. apply orb_false_iff in Hskip as [Hs1 Hs2].
    repeat split; auto. apply N.eqb_neq. exact Hs1. }
  assert (Hlen : Z.of_nat (length (rh_reply out)) <= need).
  { unfold out, request_hosts. destruct (effective_num maxh need <=? 0) eqn:He; [cbn; lia|].
    destruct (negb (registered st self)); [cbn; lia|]. cbn [rh_reply].
    apply Z.leb_gt in He.
    eapply Z.le_trans; [apply Nat2Z.inj_le, filter_len_le|].
    rewrite firstn_length. eapply Z.le_trans; [apply Nat2Z.inj_le, Nat.le_min_l|].
    rewrite Z2Nat.id by lia. unfold effective_num. destruct ((0 <? maxh) && (maxh <? need)) eqn:Hm; [|lia].
    apply andb_true_iff in Hm as [_ Hm]. apply Z.ltb_lt in Hm. lia. }
  unfold peer_reply_of. destruct (rh_err_of out) eqn:Herr; cbn [add_peers fst].
  - (* the pool answered with hosts *)
    set (kind := if ac_full_node cfg then 0%N else ac_kind cfg).
    cbn [fst]. split.
    + intros u H. apply in_app_or in H as [H|H]; [exfalso; eapply drop_calls_no_connect; exact H|].
      destruct H as [H|H]; [discriminate|]. apply in_map_iff in H as [x [[= <-] Hx]].
      apply in_map_iff in Hx as [h [<- Hh]]. exists h. split; [reflexivity|]. now apply Hshape.
    + rewrite filter_app, Hfd. cbn [app filter].
      assert (Hall : filter (fun c => match c with CConnect _ => true | _ => false end) (map CConnect (map uri_of (rh_reply out))) = map CConnect (map uri_of (rh_reply out))).
      { induction (map uri_of (rh_reply out)) as [|x r IH]; cbn; [reflexivity|now rewrite IH]. }
      rewrite Hall, !map_length. lia.
  - cbn [fst]. split.
    + intros u H. apply in_app_or in H as [H|H]; [exfalso; eapply drop_calls_no_connect; exact H|].
      destruct H as [H|[]]; discriminate.
    + rewrite filter_app, Hfd. cbn. lia.
  - cbn [fst]. split.
    + intros u H. apply in_app_or in H as [H|H]; [exfalso; eapply drop_calls_no_connect; exact H|].
      destruct H as [H|[]]; discriminate.
    + rewrite filter_app, Hfd. cbn. lia.
  - cbn [fst]. split.
    + intros u H. apply in_app_or in H as [H|H]; [exfalso; eapply drop_calls_no_connect; exact H|].
      destruct H as [H|[]]; discriminate.
    + rewrite filter_app, Hfd. cbn. lia.
Qed.
