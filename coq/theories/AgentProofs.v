(* AgentProofs.v — theorems for C18. *)
From VP Require Import Base Agent.

Definition dropped (calls : list acall) (i : N) : Prop := In (CRemoveTrusted i) calls /\ In (CDisconnect i) calls.

Lemma drop_calls_in ids i : In (CRemoveTrusted i) (drop_calls ids) <-> In i ids.
Proof.
  unfold drop_calls. rewrite in_flat_map. split.
  - intros [x [Hx [H|[H|[]]]]]; congruence.
  - intros H. exists i. split; auto. now left.
Qed.
Lemma drop_calls_in_d ids i : In (CDisconnect i) (drop_calls ids) <-> In i ids.
Proof.
  unfold drop_calls. rewrite in_flat_map. split.
  - intros [x [Hx [H|[H|[]]]]]; congruence.
  - intros H. exists i. split; auto. right. now left.
Qed.

Lemma add_peers_calls cfg num pr cf c :
  In c (fst (add_peers cfg num pr cf)) -> (exists n k, c = CPeerRequest n k) \/ (exists u, c = CConnect u).
Proof.
  unfold add_peers. destruct pr as [uris| |].
  - assert (H : forall l, In c (CPeerRequest num (if ac_full_node cfg then 0%N else ac_kind cfg) :: map CConnect l) ->
                (exists n k, c = CPeerRequest n k) \/ (exists u, c = CConnect u)).
    { intros l [<-|Hin]; [left; eauto|]. apply in_map_iff in Hin as [u [<- _]]. right. eauto. }
    destruct cf as [k|]; [destruct (k <? length uris)%nat|]; cbn [fst]; apply H.
  - cbn. intros [<-|[]]. left; eauto.
  - cbn. intros [<-|[]]. left; eauto.
Qed.

Lemma add_peers_no_drops cfg num pr cf i :
  ~ In (CRemoveTrusted i) (fst (add_peers cfg num pr cf)) /\ ~ In (CDisconnect i) (fst (add_peers cfg num pr cf)).
Proof.
  split; intros H; apply add_peers_calls in H as [[n [k H]]|[u H]]; discriminate.
Qed.

Section Round.
  Variables (cfg : acfg) (locals active invalid : list pref) (drop_errors : bool)
            (pr : pool_peer_reply) (cf : option nat).
  Let out := update_round cfg true locals (UpdateOk active invalid) drop_errors pr cf.

  (* exactly the declared-invalid peers (and, strict, the mismatching locals) are un-trusted and
     disconnected — each of them both, nobody else *)
  Theorem dropped_exact i :
    (In (CRemoveTrusted i) (fst out) \/ In (CDisconnect i) (fst out)) <->
    In i (drop_list cfg locals active invalid).
  Proof.
    unfold out, update_round. cbn [negb].
    destruct (0 <? ac_target cfg - Z.of_nat (length active)).
    - destruct (add_peers cfg _ pr cf) as [calls r] eqn:Ha.
      assert (Hnd := add_peers_no_drops cfg (ac_target cfg - Z.of_nat (length active)) pr cf i).
      rewrite Ha in Hnd. cbn [fst] in Hnd.
      assert (Hfst : forall e, fst (match r with AOk => (drop_calls (drop_list cfg locals active invalid) ++ calls, e)
                                     | e' => (drop_calls (drop_list cfg locals active invalid) ++ calls, e') end)
                           = drop_calls (drop_list cfg locals active invalid) ++ calls) by (intros; destruct r; reflexivity).
      destruct r; cbn [fst]; rewrite !in_app_iff, drop_calls_in, drop_calls_in_d; tauto.
    - cbn [fst]. rewrite drop_calls_in, drop_calls_in_d. tauto.
  Qed.

  Theorem dropped_both i : In i (drop_list cfg locals active invalid) -> dropped (fst out) i.
  Proof.
    intros H. unfold dropped, out, update_round. cbn [negb].
    destruct (0 <? ac_target cfg - Z.of_nat (length active)).
    - destruct (add_peers cfg _ pr cf) as [calls r]. destruct r; cbn [fst]; rewrite !in_app_iff, drop_calls_in, drop_calls_in_d; auto.
    - cbn [fst]. rewrite drop_calls_in, drop_calls_in_d. auto.
  Qed.

  (* the drop list itself *)
  Theorem drop_list_spec i :
    In i (drop_list cfg locals active invalid) <->
    In i (map pf_id invalid) \/
    (ac_strict cfg = true /\ exists p, In p locals /\ pf_id p = i /\ strict_match (strict_lookup active []) p = false).
  Proof.
    unfold drop_list. destruct (ac_strict cfg).
    - rewrite in_app_iff. split.
      + intros [H|H]; [now left|]. apply in_map_iff in H as [p [Hp Hin]].
        apply filter_In in Hin as [Hin Hf].
        apply andb_true_iff in Hf as [Hm _]. apply negb_true_iff in Hm. right. split; auto. eauto.
      + intros [H|[_ [p (Hin & Hp & Hm)]]]; [now left|].
        destruct (memb (pf_id p) (map pf_id invalid)) eqn:Hd.
        * left. apply memb_In in Hd. now rewrite <- Hp.
        * right. apply in_map_iff. exists p. split; auto. apply filter_In. split; auto. now rewrite Hm, Hd.
    - split; [now left|]. intros [H|[Hs _]]; [auto|discriminate].
  Qed.

  (* shortfall: exactly one Peer request, for target - |active| hosts, of the node's own kind if
     it is a light client; none when the target is met *)
  Theorem shortfall_request :
    let need := ac_target cfg - Z.of_nat (length active) in
    (0 < need -> exists rest, filter (fun c => match c with CPeerRequest _ _ => true | _ => false end) (fst out)
                              = [CPeerRequest need (if ac_full_node cfg then 0%N else ac_kind cfg)] /\ rest = tt) /\
    (need <= 0 -> forall n k, ~ In (CPeerRequest n k) (fst out)).
  Proof.
    intros need. unfold out, update_round. cbn [negb]. fold need. split.
    - intros Hpos. replace (0 <? need) with true by (symmetry; now apply Z.ltb_lt). exists tt. split; auto.
      assert (Hd : forall ids, filter (fun c => match c with CPeerRequest _ _ => true | _ => false end) (drop_calls ids) = []).
      { induction ids; cbn; auto. }
      assert (Hc : forall l, filter (fun c => match c with CPeerRequest _ _ => true | _ => false end) (map CConnect l) = []).
      { induction l; cbn; auto. }
      unfold add_peers. destruct pr as [uris| |].
      + destruct cf as [k|]; [destruct (k <? length uris)%nat|]; cbn [fst]; rewrite filter_app, Hd; cbn; now rewrite Hc.
      + cbn [fst]. rewrite filter_app, Hd. reflexivity.
      + cbn [fst]. rewrite filter_app, Hd. reflexivity.
    - intros Hle. replace (0 <? need) with false by (symmetry; apply Z.ltb_ge; lia). cbn [fst].
      intros n k H. unfold drop_calls in H. apply in_flat_map in H as [x [_ [H|[H|[]]]]]; discriminate.
  Qed.

  (* it connects to every host the pool returns (until the node refuses one) *)
  Theorem connects_all uris :
    0 < ac_target cfg - Z.of_nat (length active) -> pr = PeerOk uris -> cf = None ->
    forall u, In u uris -> In (CConnect u) (fst out).
  Proof.
    intros Hpos -> -> u Hu. unfold out, update_round. cbn [negb].
    replace (0 <? _) with true by (symmetry; now apply Z.ltb_lt). cbn.
    destruct drop_errors; cbn [fst]; rewrite in_app_iff; right; right; now apply in_map.
  Qed.
End Round.

(* a failed keep-alive call (or a node that cannot be queried) changes nothing on the node *)
Theorem failed_update_no_calls cfg locals de pr cf :
  fst (update_round cfg true locals UpdateFailed de pr cf) = [] /\
  forall ur, fst (update_round cfg false locals ur de pr cf) = [].
Proof. split; reflexivity. Qed.

(* multi-round histories: the statements hold round by round *)
Record round_in := { ri_node_ok : bool; ri_locals : list pref; ri_reply : pool_update_reply;
                     ri_drop_errors : bool; ri_peer : pool_peer_reply; ri_cf : option nat }.
Definition run_rounds (cfg : acfg) (rs : list round_in) : list (list acall * aresult) :=
  map (fun r => update_round cfg (ri_node_ok r) (ri_locals r) (ri_reply r) (ri_drop_errors r) (ri_peer r) (ri_cf r)) rs.

Theorem rounds_exact cfg rs k r active invalid :
  nth_error rs k = Some r -> ri_node_ok r = true -> ri_reply r = UpdateOk active invalid ->
  exists out, nth_error (run_rounds cfg rs) k = Some out /\
    forall i, (In (CRemoveTrusted i) (fst out) \/ In (CDisconnect i) (fst out)) <->
              In i (drop_list cfg (ri_locals r) active invalid).
Proof.
  intros Hn Hok Hr. unfold run_rounds. rewrite nth_error_map, Hn. cbn. eexists. split; [reflexivity|].
  intros i. rewrite Hok, Hr. apply dropped_exact.
Qed.
