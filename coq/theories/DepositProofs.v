From VP Require Import Base Deposit.

(* what holds of every reachable state of the repaired code *)
Record DInv (fee : Z) (s : dstate) : Prop := {
  di_cache : match d_cache s with Some v => v = eff s | None => True end;
  di_pending : Forall (fun p => p = 0) (d_pending s);
  di_nonneg : 0 <= d_chain s /\ 0 <= d_credit s;
  (* nothing is paid that was not put in or earned; the difference is what is still owed plus fees *)
  di_conserve : d_paid s + eff s + d_credit s <= d_in s
}.

Lemma last_or_app d l x : last_or d (l ++ [x]) = x.
Proof. revert d; induction l as [|y r IH]; intros d; cbn; auto. Qed.
Lemma last_or_zero d l : Forall (fun p => p = 0) l -> l <> [] -> last_or d l = 0.
Proof.
  revert d; induction l as [|y r IH]; intros d H Hne; [congruence|].
  inversion H; subst. destruct r as [|z r']; cbn [last_or]; auto. apply (IH 0); auto. discriminate.
Qed.

Lemma last_or_zeros l : Forall (fun p => p = 0) l -> last_or 0 l = 0.
Proof. destruct l as [|x r]; intros H; [reflexivity|]. apply last_or_zero; [exact H|discriminate]. Qed.

Lemma DInv_d0 fee : DInv fee d0.
Proof. constructor; cbn; auto; lia. Qed.

Lemma DInv_step cfg s o :
  dc_refresh_on_settle cfg = true -> 0 <= dc_fee cfg ->
  DInv (dc_fee cfg) s -> DInv (dc_fee cfg) (fst (dstep cfg s o)).
Proof.
  intros Hpol Hfee [Hc Hp [Hn1 Hn2] Hcons].
  destruct o as [v|c| | | |]; cbn [dstep].
  - destruct (d_pending s) eqn:Hpe; [|constructor; cbn [fst]; rewrite ?Hpe; auto].
    destruct ((0 <? v) && negb (d_locked s)) eqn:Hv; [|constructor; cbn [fst]; rewrite ?Hpe; auto].
    apply andb_true_iff in Hv as [Hv _]. unfold eff in *. rewrite Hpe in *. cbn in *.
    constructor; cbn; auto; try lia.
  - destruct (0 <=? c) eqn:Hc0; [|constructor; cbn [fst]; auto].
    unfold eff in *. constructor; cbn; auto; try lia.
  - destruct (d_pending s) eqn:Hpe; [|constructor; cbn [fst]; rewrite ?Hpe; auto].
    destruct (0 <? d_chain s); constructor; unfold eff in *; cbn; rewrite ?Hpe in *; auto.
  - unfold read. destruct (d_cache s) as [v|] eqn:Hca.
    + subst v. cbn [fst snd].
      destruct ((match dc_min cfg with Some m => eff s + d_credit s <? m | None => false end) || (eff s + d_credit s - dc_fee cfg <? 0)) eqn:Hb.
      * cbn. constructor; cbn; rewrite ?Hca; auto.
      * cbn. apply orb_false_iff in Hb as [_ Hb]. rewrite Hpol.
        constructor; cbn.
        -- unfold eff. cbn. now rewrite last_or_app.
        -- apply Forall_app; split; auto.
        -- lia.
        -- rewrite last_or_app. lia.
    + destruct (eff_locked s); cbn [fst snd]; [constructor; rewrite ?Hca; auto|].
      destruct ((match dc_min cfg with Some m => eff s + d_credit s <? m | None => false end) || (eff s + d_credit s - dc_fee cfg <? 0)) eqn:Hb.
      * cbn. constructor; cbn; auto.
      * cbn. apply orb_false_iff in Hb as [_ Hb]. rewrite Hpol.
        constructor; cbn.
        -- unfold eff. cbn. now rewrite last_or_app.
        -- apply Forall_app; split; auto.
        -- lia.
        -- rewrite last_or_app. lia.
  - destruct (d_pending s) as [|p rest] eqn:Hpe; [constructor; cbn [fst]; rewrite ?Hpe; auto|].
    inversion Hp; subst. cbn.
    assert (He : eff s = 0).
    { unfold eff. rewrite Hpe. apply last_or_zero; [constructor; auto|discriminate]. }
    assert (Hz : last_or 0 rest = 0) by (apply last_or_zeros; assumption).
    constructor; unfold eff; cbn [fst d_cache d_pending d_chain d_credit d_paid d_in].
    + now rewrite Hz.
    + assumption.
    + lia.
    + rewrite Hz. fold (eff s) in Hcons. lia.
  - constructor; cbn [fst d_cache d_pending d_chain d_credit]; auto.
Qed.

(* C07, for every history of deposits, earnings, forced-settlement requests, withdrawals
   (immediate repeats included) and minings: the wallet is never paid more than it put in and
   earned, and once everything is mined what was paid, what is left and the fees add up *)
Theorem never_overpaid cfg ops :
  dc_refresh_on_settle cfg = true -> 0 <= dc_fee cfg ->
  let s := drun cfg d0 ops in d_paid s + eff s + d_credit s <= d_in s.
Proof.
  intros Hpol Hfee. cbn zeta.
  assert (H : forall s, DInv (dc_fee cfg) s -> DInv (dc_fee cfg) (drun cfg s ops)).
  { induction ops as [|o r IH]; intros s Hs; [exact Hs|]. cbn. apply IH. now apply DInv_step. }
  destruct (H d0 (DInv_d0 _)). assumption.
Qed.

(* an immediate repeat pays nothing of the deposit again: after a withdrawal that paid, the next
   withdrawal (nothing earned in between) pays at most the credit, i.e. 0 *)
Theorem repeat_pays_nothing cfg ops :
  dc_refresh_on_settle cfg = true -> 0 <= dc_fee cfg ->
  let s := drun cfg d0 ops in
  0 < snd (dstep cfg s DWithdraw) \/ (snd (dstep cfg s DWithdraw) = 0 /\ d_pending (fst (dstep cfg s DWithdraw)) <> d_pending s) ->
  snd (dstep cfg (fst (dstep cfg s DWithdraw)) DWithdraw) = 0.
Proof.
  intros Hpol Hfee. cbn zeta. set (s := drun cfg d0 ops).
  assert (HI : DInv (dc_fee cfg) s).
  { unfold s. assert (H : forall s0, DInv (dc_fee cfg) s0 -> DInv (dc_fee cfg) (drun cfg s0 ops)).
    { induction ops as [|o r IH]; intros s0 Hs; [exact Hs|]. cbn. apply IH. now apply DInv_step. }
    apply H, DInv_d0. }
  intros Hpaid.
  (* the first withdrawal executed: its state has cache Some 0, credit 0 *)
  assert (Hexec : d_cache (fst (dstep cfg s DWithdraw)) = Some 0 /\ d_credit (fst (dstep cfg s DWithdraw)) = 0).
  { cbn [dstep] in *. unfold read in *. destruct (d_cache s) as [v|]; cbn [fst snd] in *.
    - destruct (_ || _); cbn in *; [destruct Hpaid as [H|[_ H]]; [lia|congruence]|]. rewrite Hpol. auto.
    - destruct (eff_locked s); cbn [fst snd] in *; [destruct Hpaid as [H|[_ H]]; [lia|congruence]|].
      destruct (_ || _); cbn in *; [destruct Hpaid as [H|[_ H]]; [lia|congruence]|]. rewrite Hpol. auto. }
  destruct Hexec as [Hc Hcr].
  set (s1 := fst (dstep cfg s DWithdraw)) in *.
  cbn [dstep]. unfold read. rewrite Hc, Hcr. cbn [fst snd].
  destruct (_ || _) eqn:Hb; cbn; [reflexivity|].
  apply orb_false_iff in Hb as [_ Hb]. apply Z.ltb_ge in Hb. lia.
Qed.

(* the pinned code (cache refreshed by the event only): an immediate repeat is paid the deposit again *)
Theorem stale_cache_pays_twice :
  let cfg := {| dc_fee := 10; dc_min := None; dc_refresh_on_settle := false |} in
  dpaid cfg d0 [DDeposit 1000000; DEarn 10000; DWithdraw; DWithdraw; DMine; DMine] = [0; 0; 1009990; 999990; 0; 0] /\
  let cfg' := {| dc_fee := 10; dc_min := None; dc_refresh_on_settle := true |} in
  dpaid cfg' d0 [DDeposit 1000000; DEarn 10000; DWithdraw; DWithdraw; DMine; DMine] = [0; 0; 1009990; 0; 0; 0].
Proof. vm_compute. split; reflexivity. Qed.

(* what any request reads of a wallet's deposit is what the contract holds (its pending view):
   the cache never answers anything else, in any reachable state — no reader sees a settlement
   that has not been submitted, nor misses one that has *)
Theorem reads_are_coherent cfg ops v c :
  dc_refresh_on_settle cfg = true -> 0 <= dc_fee cfg ->
  read (drun cfg d0 ops) = (Some v, c) -> v = eff (drun cfg d0 ops).
Proof.
  intros Hpol Hfee.
  assert (H : forall s, DInv (dc_fee cfg) s -> DInv (dc_fee cfg) (drun cfg s ops)).
  { induction ops as [|o r IH]; intros s Hs; [exact Hs|]. cbn. apply IH. now apply DInv_step. }
  destruct (H d0 (DInv_d0 _)) as [Hc _ _ _]. unfold read.
  destruct (d_cache (drun cfg d0 ops)) as [w|]; [intros [= <- _]; exact Hc|].
  destruct (eff_locked (drun cfg d0 ops)); [discriminate|]. now intros [= <- _].
Qed.
