From VP Require Import Base Deposit.

(* what holds of every reachable state of the repaired code *)
Record DInv (fee : Z) (s : dstate) : Prop := {
  di_cache : match d_cache s with Some v => v = eff s | None => True end;
  di_pending : Forall (fun p => p = 0) (d_pending s);
  di_nonneg : 0 <= d_chain s /\ 0 <= d_credit s;
  (* nothing is paid that was not put in or earned; the difference is what is still owed plus fees *)
  di_conserve : d_paid s + eff s + d_credit s <= d_in s
}.

Lemma last_or_app d l x : last_or d (l ++ [x]) = x.
Proof. revert d; induction l as [|y r IH]; intros d; cbn; auto. Qed.
Lemma last_or_zero d l : Forall (fun p => p = 0) l -> l <> [] -> last_or d l = 0.
Proof.
  revert d; induction l as [|y r IH]; intros d H Hne; [congruence|].
  inversion H; subst. destruct r as [|z r']; cbn [last_or]; auto. apply (IH 0); auto. discriminate.
Qed.

Lemma last_or_zeros l : Forall (fun p => p = 0) l -> last_or 0 l = 0.
Proof. destruct l as [|x r]; intros H; [reflexivity|]. apply last_or_zero; [exact H|discriminate]. Qed.

Lemma DInv_d0 fee : DInv fee d0.
Proof. constructor; cbn; auto; lia. Qed.

(* a cache that stores or drops, never keeps an old entry over a new value *)
Definition sound_policy (cfg : dcfg) : Prop := dc_when_full cfg <> FPKeepOld.

(* what Set leaves in the cache under a sound policy: the new value or nothing *)
Lemma cache_set_sound cfg s v : sound_policy cfg -> cache_set cfg s v = Some v \/ cache_set cfg s v = None.
Proof.
  unfold sound_policy, cache_set. intros H. destruct (d_full s); [|now left].
  destruct (dc_when_full cfg); [now left|now right|congruence].
Qed.

Lemma cache_ok_set cfg s v e : sound_policy cfg -> v = e ->
  match cache_set cfg s v with Some w => w = e | None => True end.
Proof. intros H ->. destruct (cache_set_sound cfg s e H) as [-> | ->]; auto. Qed.

(* the answer of a read is the contract's pending view, and so is what it leaves in the cache *)
Lemma read_sound cfg s fee dep c : sound_policy cfg -> DInv fee s -> read cfg s = (Some dep, c) ->
  dep = eff s /\ match c with Some w => w = eff s | None => True end.
Proof.
  intros Hp [Hc _ _ _]. unfold read. destruct (d_cache s) as [v|].
  - intros [= <- <-]. auto.
  - destruct (eff_locked s); [discriminate|]. intros [= <- <-]. split; [reflexivity|].
    now apply cache_ok_set.
Qed.

Lemma read_cache_ok cfg s fee : sound_policy cfg -> DInv fee s ->
  match snd (read cfg s) with Some w => w = eff s | None => True end.
Proof.
  intros Hp [Hc Hpe Hn Hco]. unfold read. destruct (d_cache s) as [v|] eqn:E; cbn [snd]; [exact Hc|].
  destruct (eff_locked s); cbn [snd]; [exact I|]. now apply cache_ok_set.
Qed.

Lemma DInv_step cfg s o :
  dc_refresh_on_settle cfg = true -> sound_policy cfg -> 0 <= dc_fee cfg ->
  DInv (dc_fee cfg) s -> DInv (dc_fee cfg) (fst (dstep cfg s o)).
Proof.
  intros Hpol Hsp Hfee HI. pose proof HI as [Hc Hp [Hn1 Hn2] Hcons].
  destruct o as [v|c| | | | | |b]; cbn [dstep].
  - (* deposit *)
    destruct (d_pending s) eqn:Hpe; [|cbn [fst]; exact HI].
    destruct ((0 <? v) && negb (d_locked s)) eqn:Hv; [|cbn [fst]; exact HI].
    apply andb_true_iff in Hv as [Hv _]. apply Z.ltb_lt in Hv.
    unfold eff in *. rewrite Hpe in *. cbn [last_or] in *.
    constructor; unfold upd, eff; cbn [fst d_cache d_pending d_chain d_credit d_paid d_in last_or].
    + now apply cache_ok_set.
    + constructor.
    + lia.
    + lia.
  - (* earn *)
    destruct (0 <=? c) eqn:Hc0; [|cbn [fst]; exact HI]. apply Z.leb_le in Hc0.
    constructor; unfold upd, eff in *; cbn [fst d_cache d_pending d_chain d_credit d_paid d_in]; auto; lia.
  - (* force *)
    destruct (d_pending s) eqn:Hpe; [|cbn [fst]; exact HI].
    destruct (0 <? d_chain s); [|cbn [fst]; exact HI].
    constructor; unfold upd, eff in *; cbn [fst d_cache d_pending d_chain d_credit d_paid d_in]; rewrite ?Hpe in *; auto.
  - (* withdraw *)
    destruct (read cfg s) as [[dep|] c1] eqn:Hr; [|cbn [fst]; exact HI].
    destruct (read_sound cfg s _ dep c1 Hsp HI Hr) as [-> Hc1].
    cbv zeta.
    destruct ((match dc_min cfg with Some m => eff s + d_credit s <? m | None => false end) || (eff s + d_credit s - dc_fee cfg <? 0)) eqn:Hb; cbn [fst].
    + constructor; unfold upd, eff in *; cbn [d_cache d_pending d_chain d_credit d_paid d_in]; auto.
    + apply orb_false_iff in Hb as [_ Hb]. apply Z.ltb_ge in Hb. rewrite Hpol.
      constructor; unfold upd, eff in *; cbn [d_cache d_pending d_chain d_credit d_paid d_in].
      * apply cache_ok_set; [exact Hsp|]. now rewrite last_or_app.
      * apply Forall_app; split; auto.
      * lia.
      * rewrite last_or_app. lia.
  - (* mine *)
    destruct (d_pending s) as [|p rest] eqn:Hpe; [cbn [fst]; exact HI|].
    inversion Hp; subst.
    assert (He : eff s = 0).
    { unfold eff. rewrite Hpe. apply last_or_zero; [constructor; auto|discriminate]. }
    assert (Hz : last_or 0 rest = 0) by (apply last_or_zeros; assumption).
    constructor; unfold upd, eff; cbn [fst d_cache d_pending d_chain d_credit d_paid d_in].
    + apply cache_ok_set; [exact Hsp|]. now rewrite Hz.
    + assumption.
    + lia.
    + rewrite Hz. lia.
  - (* restart *)
    constructor; unfold upd, eff in *; cbn [fst d_cache d_pending d_chain d_credit d_paid d_in]; auto.
  - (* read *)
    pose proof (read_cache_ok cfg s _ Hsp HI) as Hrc.
    constructor; unfold upd, eff in *; cbn [fst d_cache d_pending d_chain d_credit d_paid d_in]; auto.
  - (* other accounts fill or leave the cache *)
    constructor; unfold eff in *; cbn [fst d_cache d_pending d_chain d_credit d_paid d_in]; auto.
Qed.

Lemma DInv_run cfg ops :
  dc_refresh_on_settle cfg = true -> sound_policy cfg -> 0 <= dc_fee cfg ->
  forall s, DInv (dc_fee cfg) s -> DInv (dc_fee cfg) (drun cfg s ops).
Proof.
  intros Hpol Hsp Hfee. induction ops as [|o r IH]; intros s Hs; [exact Hs|]. cbn. apply IH. now apply DInv_step.
Qed.

(* C07, for every history of deposits, earnings, forced-settlement requests, reads, withdrawals
   (immediate repeats included), minings, restarts, and of other accounts filling the cache up and
   leaving it again, under any bound that stores or drops: the wallet is never paid more than it
   put in and earned, and what was paid, what is left and the fees add up *)
Theorem never_overpaid cfg ops :
  dc_refresh_on_settle cfg = true -> sound_policy cfg -> 0 <= dc_fee cfg ->
  let s := drun cfg d0 ops in d_paid s + eff s + d_credit s <= d_in s.
Proof.
  intros Hpol Hsp Hfee. cbn zeta.
  destruct (DInv_run cfg ops Hpol Hsp Hfee d0 (DInv_d0 _)). assumption.
Qed.

(* an immediate repeat pays nothing of the deposit again: after a withdrawal that was executed
   (it paid, or it paid exactly 0 and submitted its settlement), the next withdrawal (nothing
   earned in between, whatever happened to the cache) pays 0 *)
Theorem repeat_pays_nothing cfg ops :
  dc_refresh_on_settle cfg = true -> sound_policy cfg -> 0 <= dc_fee cfg ->
  let s := drun cfg d0 ops in
  0 < snd (dstep cfg s DWithdraw) \/ (snd (dstep cfg s DWithdraw) = 0 /\ d_pending (fst (dstep cfg s DWithdraw)) <> d_pending s) ->
  snd (dstep cfg (fst (dstep cfg s DWithdraw)) DWithdraw) = 0.
Proof.
  intros Hpol Hsp Hfee. cbn zeta. set (s := drun cfg d0 ops).
  assert (HI : DInv (dc_fee cfg) s) by (apply DInv_run; auto using DInv_d0).
  intros Hpaid.
  pose proof (DInv_step cfg s DWithdraw Hpol Hsp Hfee HI) as HI1.
  (* the first withdrawal executed: afterwards the pending view is 0 and the credit is 0 *)
  assert (Hexec : eff (fst (dstep cfg s DWithdraw)) = 0 /\ d_credit (fst (dstep cfg s DWithdraw)) = 0).
  { cbn [dstep] in *. destruct (read cfg s) as [[dep|] c1] eqn:Hr; cbn [fst snd] in *.
    - cbv zeta in *. destruct (_ || _); cbn [fst snd] in *.
      + destruct Hpaid as [H|[_ H]]; [lia|]. unfold upd in H; cbn in H. congruence.
      + unfold upd, eff; cbn [d_pending d_chain d_credit]. now rewrite last_or_app.
    - destruct Hpaid as [H|[_ H]]; [lia|congruence]. }
  destruct Hexec as [He Hcr].
  set (s1 := fst (dstep cfg s DWithdraw)) in *.
  cbn [dstep]. destruct (read cfg s1) as [[dep|] c1] eqn:Hr; cbn [snd]; [|reflexivity].
  destruct (read_sound cfg s1 _ dep c1 Hsp HI1 Hr) as [-> _].
  cbv zeta. rewrite He, Hcr.
  destruct (_ || _) eqn:Hb; cbn [snd]; [reflexivity|].
  apply orb_false_iff in Hb as [_ Hb]. apply Z.ltb_ge in Hb. lia.
Qed.

(* the pinned code (cache refreshed by the event only): an immediate repeat is paid the deposit again *)
Theorem stale_cache_pays_twice :
  let cfg := {| dc_fee := 10; dc_min := None; dc_refresh_on_settle := false; dc_when_full := FPStore |} in
  dpaid cfg d0 [DDeposit 1000000; DEarn 10000; DWithdraw; DWithdraw; DMine; DMine] = [0; 0; 1009990; 999990; 0; 0] /\
  let cfg' := {| dc_fee := 10; dc_min := None; dc_refresh_on_settle := true; dc_when_full := FPStore |} in
  dpaid cfg' d0 [DDeposit 1000000; DEarn 10000; DWithdraw; DWithdraw; DMine; DMine] = [0; 0; 1009990; 0; 0; 0].
Proof. vm_compute. split; reflexivity. Qed.

(* a bound on the cache that drops the update of an entry when the cache is full of other
   accounts' entries (instead of dropping the entry): the withdrawal's own refresh is lost, the
   wallet still reads its old deposit and the repeat is paid it again. Dropping the entry, or
   having no bound, pays once. *)
Theorem full_cache_keeps_old_pays_twice :
  let ops := [DDeposit 1000000; DEarn 10000; DRead; DCrowd true; DWithdraw; DRead; DWithdraw; DMine; DMine] in
  let run p := dpaid {| dc_fee := 0; dc_min := None; dc_refresh_on_settle := true; dc_when_full := p |} d0 ops in
  run FPKeepOld = [0; 0; 0; 0; 1010000; 0; 1000000; 0; 0] /\
  run FPEvict = [0; 0; 0; 0; 1010000; 0; 0; 0; 0] /\
  run FPStore = [0; 0; 0; 0; 1010000; 0; 0; 0; 0].
Proof. vm_compute. repeat split; reflexivity. Qed.

(* what any request reads of a wallet's deposit is what the contract holds (its pending view):
   the cache never answers anything else, in any reachable state — no reader sees a settlement
   that has not been submitted, nor misses one that has *)
Theorem reads_are_coherent cfg ops v c :
  dc_refresh_on_settle cfg = true -> sound_policy cfg -> 0 <= dc_fee cfg ->
  read cfg (drun cfg d0 ops) = (Some v, c) -> v = eff (drun cfg d0 ops).
Proof.
  intros Hpol Hsp Hfee Hr.
  pose proof (DInv_run cfg ops Hpol Hsp Hfee d0 (DInv_d0 _)) as HI.
  now destruct (read_sound cfg _ _ v c Hsp HI Hr).
Qed.
