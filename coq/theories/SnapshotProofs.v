(* SnapshotProofs.v — a value handed out is a snapshot that later operations never alter (C10). *)
From VP Require Import Base Snapshot.

Lemma read_app h r x : (r < length h)%nat -> read (h ++ x) r = read h r.
Proof. intros H. unfold read. now rewrite app_nth1. Qed.

(* with fresh-cell updates no existing cell is ever written: every reference handed out keeps
   reading the same value after any later history *)
Lemma fresh_step_stable s o r :
  (r < length (ms_heap s))%nat ->
  read (ms_heap (fst (mstep Fresh s o))) r = read (ms_heap s) r /\
  (length (ms_heap s) <= length (ms_heap (fst (mstep Fresh s o))))%nat.
Proof.
  intros Hr. destruct o as [k d|k]; cbn [mstep].
  - destruct (aget k (ms_bal s)); cbn [fst ms_heap]; rewrite app_length, read_app by assumption; cbn; split; auto; lia.
  - cbn. split; auto.
Qed.

Theorem snapshot_stable ops : forall s r,
  (r < length (ms_heap s))%nat -> read (ms_heap (mrun Fresh s ops)) r = read (ms_heap s) r.
Proof.
  induction ops as [|o rest IH]; intros s r Hr; cbn; auto.
  destruct (fresh_step_stable s o r Hr) as [He Hl]. rewrite IH by lia. exact He.
Qed.

(* references handed out point into the heap *)
Definition RefsOk (s : mstore) : Prop := forall k r, aget k (ms_bal s) = Some r -> (r < length (ms_heap s))%nat.
Lemma RefsOk_step w s o : RefsOk s -> RefsOk (fst (mstep w s o)).
Proof.
  unfold RefsOk. intros H. destruct o as [k d|k]; cbn [mstep]; auto.
  destruct (aget k (ms_bal s)) as [r|] eqn:Hk; destruct w; cbn [fst ms_heap ms_bal].
  - intros k' r'. rewrite aget_aset. destruct (N.eqb k' k); [intros [= <-]; rewrite app_length; cbn; lia|].
    intros Hg. apply H in Hg. rewrite app_length. lia.
  - intros k' r' Hg. apply H in Hg.
    assert (Hw : forall h i v, length (write h i v) = length h) by (induction h; destruct i; cbn; auto).
    now rewrite Hw.
  - intros k' r'. rewrite aget_aset. destruct (N.eqb k' k); [intros [= <-]; rewrite app_length; cbn; lia|].
    intros Hg. apply H in Hg. rewrite app_length. lia.
  - intros k' r'. rewrite aget_aset. destruct (N.eqb k' k); [intros [= <-]; rewrite app_length; cbn; lia|].
    intros Hg. apply H in Hg. rewrite app_length. lia.
Qed.

(* a balance handed out by Get is never altered by any later sequence of operations *)
Theorem handed_out_value_stable pre k r post :
  snd (mstep Fresh (mrun Fresh ms0 pre) (MGet k)) = Some r ->
  read (ms_heap (mrun Fresh (mrun Fresh ms0 pre) post)) r = read (ms_heap (mrun Fresh ms0 pre)) r.
Proof.
  intros Hg. apply snapshot_stable.
  assert (Hok : RefsOk (mrun Fresh ms0 pre)).
  { assert (G : forall ops s, RefsOk s -> RefsOk (mrun Fresh s ops)).
    { induction ops as [|o rest IH]; intros s Hs; cbn; auto. apply IH. now apply RefsOk_step. }
    apply G. intros k' r'. cbn. discriminate. }
  cbn in Hg. eapply Hok; eauto.
Qed.

(* in-place updates (what the pinned tree did through shared digit arrays) change a value that
   was handed out earlier: the model can express the failure *)
Theorem inplace_breaks :
  let s1 := mrun InPlace ms0 [MAdd 1 14] in
  snd (mstep InPlace s1 (MGet 1)) = Some 0%nat /\
  read (ms_heap s1) 0%nat = 14 /\ read (ms_heap (mrun InPlace s1 [MAdd 1 7])) 0%nat = 21 /\
  read (ms_heap (mrun Fresh (mrun Fresh ms0 [MAdd 1 14]) [MAdd 1 7])) 0%nat = 14.
Proof. vm_compute. auto. Qed.
