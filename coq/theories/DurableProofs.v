(* DurableProofs.v — theorems for C13. *)
From VP Require Import Base Nonce Store StoreProofs Durable.

(* the writes a method issues, applied together, are exactly the contract step *)
Theorem writes_refine X E now st o v :
  NodeKeys st -> driver_op o = true ->
  d_st (apply_writes {| d_ver := v; d_st := st |} (writes_of X E now st o)) = fst (sstep X E now st o) /\
  d_ver (apply_writes {| d_ver := v; d_st := st |} (writes_of X E now st o)) = v.
Proof.
  intros HK Hd. destruct o; cbn [driver_op] in Hd; try discriminate; cbn [writes_of sstep];
    try (cbn; split; reflexivity).
  - unfold nstep. cbn [nr_now nr_n nr_id]. destruct (stale E now n); cbn [snd fst].
    + destruct st; cbn; auto.
    + destruct (n <=? hw (s_nonce st) who); cbn [snd fst]; destruct st; cbn; auto.
  - destruct (aget i (s_nodes st)); cbn; auto.
  - destruct (N.eqb (n_id nd) 0); cbn; auto.
  - destruct (registered st i); cbn; auto.
  - destruct (aget i (s_nodes st)) as [nd|] eqn:Hnd; cbn; auto. now rewrite (HK _ _ Hnd).
  - destruct (registered st i); cbn; auto.
  - destruct (registered st i); [|cbn; auto].
    destruct (aget i (s_link st)); cbn; auto.
  - destruct (registered st i); cbn; auto.
  - destruct (aget i (s_link st)) as [a'|]; [destruct (N.eqb a a')|]; cbn; auto.
Qed.

(* atomicity: when a method runs as ONE transaction, a crash at any point inside it leaves the
   state before it or the state after it *)
Theorem crash_atomic X E now st o v d' :
  NodeKeys st -> driver_op o = true ->
  In d' (crash_states 1 {| d_ver := v; d_st := st |} (writes_of X E now st o)) ->
  d' = {| d_ver := v; d_st := st |} \/
  d' = {| d_ver := v; d_st := fst (sstep X E now st o) |}.
Proof.
  intros HK Hd [<-|[<-|[]]]; [now left|right].
  destruct (writes_refine X E now st o v HK Hd) as [H1 H2].
  destruct (apply_writes _ _) as [v' st']. cbn in *. now subst.
Qed.

(* hence the ledger total and the invariant survive any crash point (a trial balance is never
   both migrated and kept, or lost) *)
Corollary crash_conserves X E now st o v d' :
  NodeKeys st -> driver_op o = true -> Inv st ->
  In d' (crash_states 1 {| d_ver := v; d_st := st |} (writes_of X E now st o)) ->
  Inv (d_st d') /\ (total (d_st d') = total st \/ total (d_st d') = total st + ledger_delta st o).
Proof.
  intros HK Hd HI Hin. destruct (crash_atomic _ _ _ _ _ _ _ HK Hd Hin) as [Heq|Heq]; subst d'; cbn.
  - auto.
  - split; [now apply Inv_step|right; now apply total_step].
Qed.

(* the model can express the failure: were AddAccountNode split over two transactions, a crash
   in between could leave the trial credit both migrated and kept *)
Definition split_witness_state : sstate :=
  fst (sstep 120 900 10 (fst (sstep 120 900 0 s0
    (SetNode {| n_id := 1; n_uri := 0; n_seen := 0; n_kind := 0; n_host := false; n_payout := 0; n_block := 0 |})))
    (AddNodeBal 1%N 7)).
Theorem split_transactions_refuted :
  exists d', In d' (crash_states 2 {| d_ver := 2; d_st := split_witness_state |}
                                 (writes_of 120 900 20 split_witness_state (AddAcctNode 5%N 1%N))) /\
             total (d_st d') = 14 /\ total split_witness_state = 7.
Proof.
  eexists. split; [cbn; right; right; left; reflexivity|]. vm_compute. auto.
Qed.

(* acknowledged changes survive restarts: a history with restarts and crash points *)
Inductive hev :=
| HDone (now : Z) (o : sop)                       (* acknowledged *)
| HCut (now : Z) (o : sop) (committed : bool)     (* process killed during the operation *)
| HRestart.                                       (* close/reopen, or restart after a kill *)

Definition hstep (X E latest : Z) (d : option dstate) (e : hev) : option dstate :=
  match d with
  | None => None
  | Some d =>
      match e with
      | HDone now o => Some {| d_ver := d_ver d; d_st := fst (sstep X E now (d_st d) o) |}
      | HCut now o true => Some {| d_ver := d_ver d; d_st := fst (sstep X E now (d_st d) o) |}
      | HCut now o false => Some d
      | HRestart => migrate latest d
      end
  end.

Definition erase (e : hev) : list (Z * sop) :=
  match e with
  | HDone now o => [(now, o)]
  | HCut now o true => [(now, o)]
  | _ => []
  end.

Lemma migrate_current_id latest d : d_ver d = latest -> migrate latest d = Some d.
Proof.
  intros H. unfold migrate. destruct (Z.to_nat latest); cbn; rewrite H, Z.eqb_refl; reflexivity.
Qed.

Theorem ack_durable X E latest evs : forall st,
  fold_left (hstep X E latest) evs (Some {| d_ver := latest; d_st := st |}) =
  Some {| d_ver := latest; d_st := srun X E st (flat_map erase evs) |}.
Proof.
  induction evs as [|e evs IH]; intros st; cbn [fold_left flat_map]; auto.
  destruct e as [now o|now o [|]|]; cbn [hstep erase app srun d_ver d_st]; try apply IH.
  rewrite migrate_current_id by reflexivity. apply IH.
Qed.

(* migrations: from format 0 and 1 the current format (2) is reached, nodes, peers, links and
   balances are untouched (1->2 drops only the nonce table) *)
Theorem migrate_from_old st :
  migrate 2 {| d_ver := 0; d_st := st |} = Some {| d_ver := 2; d_st := upd_nonce st [] |} /\
  migrate 2 {| d_ver := 1; d_st := st |} = Some {| d_ver := 2; d_st := upd_nonce st [] |} /\
  migrate 2 {| d_ver := 2; d_st := st |} = Some {| d_ver := 2; d_st := st |}.
Proof. repeat split; reflexivity. Qed.

Theorem migrate_keeps_ledger v st d' :
  migrate 2 {| d_ver := v; d_st := st |} = Some d' ->
  d_ver d' = 2 /\ s_nodes (d_st d') = s_nodes st /\ s_peers (d_st d') = s_peers st /\
  s_link (d_st d') = s_link st /\ s_acct (d_st d') = s_acct st /\ s_trial (d_st d') = s_trial st.
Proof.
  intros H.
  assert (Hc : v = 0 \/ v = 1 \/ v = 2 \/ v < 0 \/ 2 < v) by lia.
  destruct Hc as [->|[->|[->|[Hneg|Hbig]]]].
  - cbn in H. injection H as <-. cbn. repeat split.
  - cbn in H. injection H as <-. cbn. repeat split.
  - cbn in H. injection H as <-. cbn. repeat split.
  - unfold migrate in H. change (Z.to_nat 2) with 2%nat in H. cbn [migrate_from d_ver] in H.
    destruct (Z.eqb_spec v 2); [lia|]. destruct (Z.ltb_spec 2 v); [discriminate|].
    destruct (Z.ltb_spec v 0); [discriminate|lia].
  - unfold migrate in H. change (Z.to_nat 2) with 2%nat in H. cbn [migrate_from d_ver] in H.
    destruct (Z.eqb_spec v 2); [lia|]. destruct (Z.ltb_spec 2 v); [discriminate|lia].
Qed.

(* a database newer than the supported format is refused, not touched *)
Theorem migrate_newer_refused v st : 2 < v -> migrate 2 {| d_ver := v; d_st := st |} = None.
Proof.
  intros H. unfold migrate. change (Z.to_nat 2) with 2%nat. cbn [migrate_from d_ver].
  destruct (Z.eqb_spec v 2); [lia|]. now replace (2 <? v) with true by (symmetry; apply Z.ltb_lt; lia).
Qed.
