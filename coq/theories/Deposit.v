(* Deposit.v — the on-chain deposit as the payment service sees it through ContractPayment
   (pool/payment/contract.go, cache.go): a cache in front of the contract, filled on a miss from
   the contract's pending state and refreshed by the contract's Balance events, which arrive when
   a transaction is MINED.  A withdrawal pays deposit + credit - fee and submits a settlement that
   sets the on-chain deposit to 0.  The question (C07): can a wallet be paid its deposit twice?
   [refresh_on_settle] is the repaired code (the cache is set when the settlement is submitted);
   without it the cache keeps the old deposit until the settlement is mined (D29).
   The cache may be bounded: [d_full] says that it is full of other accounts' entries (anybody can
   look up any account), and [dc_when_full] what a Set does then: store all the same (the pinned
   code: no bound), drop the wallet's entry so that the next read asks the contract (a correct
   bound), or leave the old entry in place (an update silently dropped). *)
From VP Require Import Base.

Record dstate := {
  d_chain : Z;              (* deposit in the last mined block *)
  d_pending : list Z;       (* new deposits of submitted, not yet mined settlements, oldest first *)
  d_locked : bool;          (* the wallet asked for a forced settlement: the deposit is timelocked *)
  d_cache : option Z;
  d_full : bool;            (* the cache is full of other accounts' entries *)
  d_credit : Z;             (* off-chain credit on the ledger *)
  d_paid : Z;               (* what the contract has been told to pay the wallet so far *)
  d_in : Z                  (* ghost: everything the wallet put in or earned *)
}.

Inductive dop :=
| DDeposit (v : Z)          (* addBalance, mined at once; only between settlements (see below) *)
| DEarn (c : Z)             (* a keep-alive credits the wallet *)
| DForce                    (* forceSettle: timelock, no Balance event *)
| DWithdraw                 (* pool_withdraw *)
| DMine                     (* the oldest pending settlement is mined: Balance event *)
| DRestart                  (* the pool process restarts: the cache starts empty *)
| DRead                     (* pool_account / a keep-alive reads the balance (fills the cache on a miss) *)
| DCrowd (full : bool).     (* other accounts are looked up until the cache is full / their entries expire *)

Inductive full_policy := FPStore | FPEvict | FPKeepOld.
Record dcfg := { dc_fee : Z; dc_min : option Z; dc_refresh_on_settle : bool; dc_when_full : full_policy }.

(* balanceCache.Set *)
Definition cache_set (cfg : dcfg) (s : dstate) (v : Z) : option Z :=
  if d_full s then match dc_when_full cfg with FPStore => Some v | FPEvict => None | FPKeepOld => d_cache s end
  else Some v.

Definition upd (s : dstate) (chain : Z) (pending : list Z) (locked : bool) (cache : option Z) (credit paid din : Z) : dstate :=
  {| d_chain := chain; d_pending := pending; d_locked := locked; d_cache := cache; d_full := d_full s;
     d_credit := credit; d_paid := paid; d_in := din |}.

(* the contract's pending view: what Accounts(Pending: true) answers *)
Fixpoint last_or (d : Z) (l : list Z) : Z := match l with [] => d | x :: r => last_or x r end.
Definition eff (s : dstate) : Z := last_or (d_chain s) (d_pending s).
Definition eff_locked (s : dstate) : bool := match d_pending s with [] => d_locked s | _ => false end.

(* balanceCache.Get: a hit answers from the cache; a miss asks the contract, which refuses a
   timelocked deposit, and fills the cache *)
Definition read (cfg : dcfg) (s : dstate) : option Z * option Z (* answer, cache afterwards *) :=
  match d_cache s with
  | Some v => (Some v, Some v)
  | None => if eff_locked s then (None, None) else (Some (eff s), cache_set cfg s (eff s))
  end.

Definition dstep (cfg : dcfg) (s : dstate) (o : dop) : dstate * Z (* paid by this step *) :=
  match o with
  | DDeposit v =>
      match d_pending s with
      | [] => if (0 <? v) && negb (d_locked s)
              then (upd s (d_chain s + v) [] false (cache_set cfg s (d_chain s + v)) (d_credit s) (d_paid s) (d_in s + v), 0)
              else (s, 0)
      | _ => (s, 0)   (* a deposit racing a pending settlement is overwritten by the contract's
                         opSettle: the contract's own race, outside the pool's code *)
      end
  | DEarn c =>
      if 0 <=? c then (upd s (d_chain s) (d_pending s) (d_locked s) (d_cache s) (d_credit s + c) (d_paid s) (d_in s + c), 0)
      else (s, 0)
  | DForce =>
      match d_pending s with
      | [] => if 0 <? d_chain s
              then (upd s (d_chain s) [] true (d_cache s) (d_credit s) (d_paid s) (d_in s), 0)
              else (s, 0)
      | _ => (s, 0)
      end
  | DWithdraw =>
      match read cfg s with
      | (None, _) => (s, 0)                                  (* refused: the deposit is timelocked *)
      | (Some dep, cache1) =>
          let total := dep + d_credit s in
          let below := match dc_min cfg with Some m => total <? m | None => false end in
          let s1 := upd s (d_chain s) (d_pending s) (d_locked s) cache1 (d_credit s) (d_paid s) (d_in s) in
          if below || (total - dc_fee cfg <? 0) then (s1, 0)
          else
            (upd s (d_chain s) (d_pending s ++ [0]) (d_locked s)
                 (if dc_refresh_on_settle cfg then cache_set cfg s1 0 else cache1)
                 0 (d_paid s + (total - dc_fee cfg)) (d_in s),
             total - dc_fee cfg)
      end
  | DRestart => (upd s (d_chain s) (d_pending s) (d_locked s) None (d_credit s) (d_paid s) (d_in s), 0)
  | DRead => (upd s (d_chain s) (d_pending s) (d_locked s) (snd (read cfg s)) (d_credit s) (d_paid s) (d_in s), 0)
  | DCrowd b =>
      ({| d_chain := d_chain s; d_pending := d_pending s; d_locked := d_locked s; d_cache := d_cache s; d_full := b;
          d_credit := d_credit s; d_paid := d_paid s; d_in := d_in s |}, 0)
  | DMine =>
      match d_pending s with
      | [] => (s, 0)
      | p :: rest => (upd s p rest false (cache_set cfg s p) (d_credit s) (d_paid s) (d_in s), 0)
      end
  end.

Definition d0 : dstate := {| d_chain := 0; d_pending := []; d_locked := false; d_cache := None; d_full := false; d_credit := 0; d_paid := 0; d_in := 0 |}.
Definition drun (cfg : dcfg) (s : dstate) (ops : list dop) : dstate := fold_left (fun s o => fst (dstep cfg s o)) ops s.
Fixpoint dpaid (cfg : dcfg) (s : dstate) (ops : list dop) : list Z :=
  match ops with [] => [] | o :: r => snd (dstep cfg s o) :: dpaid cfg (fst (dstep cfg s o)) r end.
