(* Deposit.v — the on-chain deposit as the payment service sees it through ContractPayment
   (pool/payment/contract.go, cache.go): a cache in front of the contract, filled on a miss from
   the contract's pending state and refreshed by the contract's Balance events, which arrive when
   a transaction is MINED.  A withdrawal pays deposit + credit - fee and submits a settlement that
   sets the on-chain deposit to 0.  The question (C07): can a wallet be paid its deposit twice?
   [refresh_on_settle] is the repaired code (the cache is set when the settlement is submitted);
   without it the cache keeps the old deposit until the settlement is mined (D29). *)
From VP Require Import Base.

Record dstate := {
  d_chain : Z;              (* deposit in the last mined block *)
  d_pending : list Z;       (* new deposits of submitted, not yet mined settlements, oldest first *)
  d_locked : bool;          (* the wallet asked for a forced settlement: the deposit is timelocked *)
  d_cache : option Z;
  d_credit : Z;             (* off-chain credit on the ledger *)
  d_paid : Z;               (* what the contract has been told to pay the wallet so far *)
  d_in : Z                  (* ghost: everything the wallet put in or earned *)
}.

Inductive dop :=
| DDeposit (v : Z)          (* addBalance, mined at once; only between settlements (see below) *)
| DEarn (c : Z)             (* a keep-alive credits the wallet *)
| DForce                    (* forceSettle: timelock, no Balance event *)
| DWithdraw                 (* pool_withdraw *)
| DMine                     (* the oldest pending settlement is mined: Balance event *)
| DRestart.                 (* the pool process restarts: the cache starts empty *)

(* the contract's pending view: what Accounts(Pending: true) answers *)
Fixpoint last_or (d : Z) (l : list Z) : Z := match l with [] => d | x :: r => last_or x r end.
Definition eff (s : dstate) : Z := last_or (d_chain s) (d_pending s).
Definition eff_locked (s : dstate) : bool := match d_pending s with [] => d_locked s | _ => false end.

(* balanceCache.Get: a hit answers from the cache; a miss asks the contract, which refuses a
   timelocked deposit, and fills the cache *)
Definition read (s : dstate) : option Z * option Z (* answer, cache afterwards *) :=
  match d_cache s with
  | Some v => (Some v, Some v)
  | None => if eff_locked s then (None, None) else (Some (eff s), Some (eff s))
  end.

Record dcfg := { dc_fee : Z; dc_min : option Z; dc_refresh_on_settle : bool }.

Definition dstep (cfg : dcfg) (s : dstate) (o : dop) : dstate * Z (* paid by this step *) :=
  match o with
  | DDeposit v =>
      match d_pending s with
      | [] => if (0 <? v) && negb (d_locked s)
              then ({| d_chain := d_chain s + v; d_pending := []; d_locked := false;
                       d_cache := Some (d_chain s + v); d_credit := d_credit s; d_paid := d_paid s;
                       d_in := d_in s + v |}, 0)
              else (s, 0)
      | _ => (s, 0)   (* a deposit racing a pending settlement is overwritten by the contract's
                         opSettle: the contract's own race, outside the pool's code *)
      end
  | DEarn c =>
      if 0 <=? c then ({| d_chain := d_chain s; d_pending := d_pending s; d_locked := d_locked s; d_cache := d_cache s;
                          d_credit := d_credit s + c; d_paid := d_paid s; d_in := d_in s + c |}, 0)
      else (s, 0)
  | DForce =>
      match d_pending s with
      | [] => if 0 <? d_chain s
              then ({| d_chain := d_chain s; d_pending := []; d_locked := true; d_cache := d_cache s;
                       d_credit := d_credit s; d_paid := d_paid s; d_in := d_in s |}, 0)
              else (s, 0)
      | _ => (s, 0)
      end
  | DWithdraw =>
      match read s with
      | (None, _) => (s, 0)                                  (* refused: the deposit is timelocked *)
      | (Some dep, cache1) =>
          let total := dep + d_credit s in
          let below := match dc_min cfg with Some m => total <? m | None => false end in
          if below || (total - dc_fee cfg <? 0) then
            ({| d_chain := d_chain s; d_pending := d_pending s; d_locked := d_locked s; d_cache := cache1;
                d_credit := d_credit s; d_paid := d_paid s; d_in := d_in s |}, 0)
          else
            ({| d_chain := d_chain s; d_pending := d_pending s ++ [0]; d_locked := d_locked s;
                d_cache := if dc_refresh_on_settle cfg then Some 0 else cache1;
                d_credit := 0; d_paid := d_paid s + (total - dc_fee cfg); d_in := d_in s |},
             total - dc_fee cfg)
      end
  | DRestart =>
      ({| d_chain := d_chain s; d_pending := d_pending s; d_locked := d_locked s; d_cache := None;
          d_credit := d_credit s; d_paid := d_paid s; d_in := d_in s |}, 0)
  | DMine =>
      match d_pending s with
      | [] => (s, 0)
      | p :: rest => ({| d_chain := p; d_pending := rest; d_locked := false; d_cache := Some p;
                         d_credit := d_credit s; d_paid := d_paid s; d_in := d_in s |}, 0)
      end
  end.

Definition d0 : dstate := {| d_chain := 0; d_pending := []; d_locked := false; d_cache := None; d_credit := 0; d_paid := 0; d_in := 0 |}.
Definition drun (cfg : dcfg) (s : dstate) (ops : list dop) : dstate := fold_left (fun s o => fst (dstep cfg s o)) ops s.
Fixpoint dpaid (cfg : dcfg) (s : dstate) (ops : list dop) : list Z :=
  match ops with [] => [] | o :: r => snd (dstep cfg s o) :: dpaid cfg (fst (dstep cfg s o)) r end.
