(* Check18.v — correspondence predicate for C18: the calls a real Agent made on a recording node
   and a scripted pool, round by round, must be the model's. *)
From VP Require Import Base Agent AgentProofs.

Record c18_round := { r18_in : round_in; r18_calls : list acall; r18_result : aresult }.
Record c18_case := { c18_cfg : acfg; c18_rounds : list c18_round }.

Definition acall_eqb (a b : acall) : bool :=
  match a, b with
  | CRemoveTrusted x, CRemoveTrusted y | CDisconnect x, CDisconnect y | CConnect x, CConnect y => N.eqb x y
  | CPeerRequest n k, CPeerRequest n' k' => Z.eqb n n' && N.eqb k k'
  | _, _ => false
  end.
Definition aresult_eqb (a b : aresult) : bool :=
  match a, b with AOk, AOk | AErrNode, AErrNode | AErrPool, AErrPool | AErrDisconnect, AErrDisconnect => true | _, _ => false end.

(* the property prescribes which calls a round makes, not their order: compare as multisets *)
Fixpoint remove_call (x : acall) (l : list acall) : option (list acall) :=
  match l with
  | [] => None
  | y :: r => if acall_eqb x y then Some r
              else match remove_call x r with Some r' => Some (y :: r') | None => None end
  end.
Fixpoint calls_perm_eqb (a b : list acall) : bool :=
  match a with
  | [] => match b with [] => true | _ => false end
  | x :: r => match remove_call x b with Some b' => calls_perm_eqb r b' | None => false end
  end.

Fixpoint c18_first_diff (cfg : acfg) (rs : list c18_round) (k : nat) : option nat :=
  match rs with
  | [] => None
  | r :: rest =>
      let i := r18_in r in
      let '(calls, res) := update_round cfg (ri_node_ok i) (ri_locals i) (ri_reply i) (ri_drop_errors i) (ri_peer i) (ri_cf i) in
      if calls_perm_eqb calls (r18_calls r) && aresult_eqb res (r18_result r)
      then c18_first_diff cfg rest (S k) else Some k
  end.
Definition c18_check (c : c18_case) : bool := match c18_first_diff (c18_cfg c) (c18_rounds c) 0 with None => true | Some _ => false end.
Definition c18_diag (c : c18_case) : Z := match c18_first_diff (c18_cfg c) (c18_rounds c) 0 with None => -1 | Some k => Z.of_nat k end.
