(* PeersFrame.v — what does NOT change a node's tracked peers: the set of peers a node is
   recorded as connected to (what NodePeers lists, what a peer request skips, what a keep-alive
   bills) is written by that node's own keep-alives and by nothing else.  Time passing, other
   nodes checking in, registrations and re-registrations (of the node itself too), balance and
   link operations, nonce checks and restarts all leave it as it is. *)
From VP Require Import Base Nonce Store.

Definition tracked (st : sstate) (i : N) : list N := akeys (peers_of st i).

Definition writes_peers_of (i : N) (o : sop) : bool :=
  match o with UpdatePeers j _ _ => N.eqb i j | _ => false end.

Lemma aget_map_vals {V W} (g : V -> W) (m : amap V) q :
  aget q (map (fun kv => (fst kv, g (snd kv))) m) = option_map g (aget q m).
Proof. induction m as [|[k v] m IH]; cbn; auto. destruct (N.eqb q k); auto. Qed.

Lemma akeys_map_vals {V W} (g : V -> W) (m : amap V) :
  akeys (map (fun kv => (fst kv, g (snd kv))) m) = akeys m.
Proof. unfold akeys. rewrite map_map. apply map_ext. reflexivity. Qed.

Theorem tracked_frame_step X E now st o i :
  writes_peers_of i o = false -> tracked (fst (sstep X E now st o)) i = tracked st i.
Proof.
  intros Hw. unfold tracked, peers_of.
  destruct o; cbn [sstep writes_peers_of] in *; try reflexivity.
  - destruct (nstep E (s_nonce st) _) as [m ok]. reflexivity.
  - destruct (aget i0 (s_nodes st)); reflexivity.
  - destruct (N.eqb (n_id nd) 0); reflexivity.
  - destruct (registered st i0); reflexivity.
  - destruct (aget i0 (s_nodes st)) as [nd|]; [|reflexivity].
    cbn [fst upd_peers upd_nodes s_peers].
    apply N.eqb_neq in Hw. rewrite aget_aset_other by congruence. reflexivity.
  - destruct (registered st i0); reflexivity.
  - destruct (registered st i0); [|reflexivity]. destruct (aget i0 (s_link st)); reflexivity.
  - destruct (registered st i0); reflexivity.
  - destruct (aget i0 (s_link st)) as [a'|]; [destruct (N.eqb a a')|]; reflexivity.
  - cbn [fst upd_peers upd_nodes s_peers].
    rewrite (aget_map_vals (fun p : amap Z => map (fun pt => (fst pt, snd pt - d)) p)).
    destruct (aget i (s_peers st)) as [p|]; cbn [option_map]; [|reflexivity].
    apply (akeys_map_vals (fun ts => ts - d)).
Qed.

(* over whole histories: as long as the node itself sends no keep-alive, its tracked peers are
   the same list, whatever else happens and however much time passes *)
Theorem tracked_frame_run X E i : forall ops st,
  forallb (fun no => negb (writes_peers_of i (snd no))) ops = true ->
  tracked (srun X E st ops) i = tracked st i.
Proof.
  induction ops as [|[now o] r IH]; intros st H; [reflexivity|].
  cbn [forallb snd] in H. apply andb_true_iff in H as [Ho Hr]. apply negb_true_iff in Ho.
  cbn [srun]. rewrite (IH _ Hr). now apply tracked_frame_step.
Qed.

(* and what NodePeers answers for a registered node is exactly that list (as node records) *)
Lemma node_peers_lists_tracked X E now st i :
  registered st i = true ->
  snd (sstep X E now st (NodePeers i)) = RNodes (nodes_of st (tracked st i)).
Proof. intros H. cbn [sstep]. rewrite H. reflexivity. Qed.

(* non-vacuity: a peer recorded with a check-in 100 s old, the peer checks in again, 130 s pass:
   still tracked, although its recorded timestamp is by now older than the window *)
Example aged_entry_still_listed :
  let nd k h := {| n_id := k; n_uri := 0; n_seen := 0; n_kind := 1; n_host := h; n_payout := 0; n_block := 0 |} in
  let ops := [(0, SetNode (nd 1%N true)); (0, SetNode (nd 2%N false)); (100, UpdatePeers 2 [1%N] 0);
              (101, UpdatePeers 1 [] 0); (101, Advance 130)] in
  tracked (srun 120 900 s0 ops) 2 = [1%N].
Proof. vm_compute. reflexivity. Qed.
