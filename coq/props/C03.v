(* C03 — minimum balance: clients below it are refused and cut off, others never are. *)
From VP Require Import Base Nonce Store StoreProofs Pool PoolProofs BalanceProofs.

(* at connect: a light client is refused exactly when deposit + credit < minimum, and the error
   carries that balance; hosts and unset minimum: never *)
Theorem c03_connect : forall cfg dep st nd,
  registered st (n_id nd) = true ->
  on_client cfg dep st nd =
  match p_min cfg with
  | None => POk
  | Some m => if n_host nd then POk
              else if spendable dep (node_bal st (n_id nd)) <? m
                   then PLow (spendable dep (node_bal st (n_id nd))) else POk
  end.
Proof. exact on_client_spec. Qed.
Print Assumptions c03_connect.
Theorem c03_hosts_never : forall cfg dep st nd, n_host nd = true -> on_client cfg dep st nd = POk.
Proof. exact on_client_hosts_never. Qed.
Theorem c03_unset : forall cfg dep st nd, p_min cfg = None -> on_client cfg dep st nd = POk.
Proof. exact on_client_unset. Qed.

(* at a keep-alive that bills: cut off exactly when the spendable balance after that keep-alive's
   charge is below the minimum; the error reports that balance; otherwise the balance is returned *)
Theorem c03_cutoff : forall cfg dep now_b st nd peers,
  billable cfg nd now_b = true -> registered st (n_id nd) = true ->
  let st' := fst (on_update cfg dep now_b st nd peers) in
  let sp := spendable dep (node_bal st' (n_id nd)) in
  snd (on_update cfg dep now_b st nd peers) =
  match p_min cfg with
  | Some m => if sp <? m then PLow sp
              else PBal (b_acct (node_bal st' (n_id nd))) (b_credit (node_bal st' (n_id nd)))
                        (dep_of dep (b_acct (node_bal st' (n_id nd))))
  | None => PBal (b_acct (node_bal st' (n_id nd))) (b_credit (node_bal st' (n_id nd)))
                 (dep_of dep (b_acct (node_bal st' (n_id nd))))
  end.
Proof. exact on_update_cutoff. Qed.
Print Assumptions c03_cutoff.

(* the pool then asks exactly the connected hosts peering with the client to disconnect it *)
Theorem c03_cutoff_calls : forall cfg dep conn now_s now_b st i reported blk before,
  aget i (s_nodes st) = Some before ->
  let u := snd (pool_update cfg dep conn now_s now_b st i reported blk) in
  uo_disconnect u = match uo_res u with
                    | PLow _ => filter (fun q => memb q conn) (uo_active u)
                    | _ => []
                    end.
Proof. exact cutoff_calls. Qed.
Print Assumptions c03_cutoff_calls.

(* boundary instances: minimum 10, spendable 9 / 10 / 11 *)
Example c03_boundary :
  let cfg := {| p_X := 120; p_E := 900; p_price := 1; p_interval := 1; p_min := Some 10;
                p_wmin := None; p_fee := 0; p_settle_enabled := true |} in
  let nd := {| n_id := 1; n_uri := 0; n_seen := 0; n_kind := 0; n_host := false; n_payout := 0; n_block := 0 |} in
  let st b := fst (sstep 120 900 0 (fst (sstep 120 900 0 s0 (SetNode nd))) (AddNodeBal 1%N b)) in
  on_client cfg [] (st 9) nd = PLow 9 /\ on_client cfg [] (st 10) nd = POk /\ on_client cfg [] (st 11) nd = POk.
Proof. vm_compute. auto. Qed.
