(* C12 — both storage drivers implement the documented store contract identically.
   The contract is the executable model VP.Store (both real drivers are compared with it on
   every run); the theorems below are the contract facts the property names, for every state
   reachable by any operation sequence. *)
From VP Require Import Base Nonce Store StoreProofs.
From VPgen Require Import Facts.

(* the state invariant holds in every reachable state *)
Theorem c12_invariant : forall X E ops, Inv (srun X E s0 ops).
Proof. intros. apply Inv_run, Inv_s0. Qed.
Print Assumptions c12_invariant.

(* unregistered nodes are errors, and the failed call changes nothing *)
Theorem c12_unregistered_errors : forall X E now st o i,
  node_arg o = Some i -> registered st i = false -> sstep X E now st o = (st, RErr EUnregistered).
Proof. exact unregistered_errors. Qed.
Print Assumptions c12_unregistered_errors.

(* linking migrates the trial credit exactly once and touches nothing else *)
Theorem c12_link_migrates_once : forall X E now st a i,
  registered st i = true ->
  let st' := fst (sstep X E now st (AddAcctNode a i)) in
  snd (sstep X E now st (AddAcctNode a i)) = ROk /\
  aget i (s_link st') = Some a /\ aget i (s_trial st') = None /\
  acct_bal st' a = {| b_acct := a; b_credit := b_credit (acct_bal st a) + b_credit (trial_bal st i) |} /\
  (forall a', a' <> a -> aget a' (s_acct st') = aget a' (s_acct st)) /\
  (forall j, j <> i -> aget j (s_trial st') = aget j (s_trial st) /\ aget j (s_link st') = aget j (s_link st)).
Proof. exact link_migrates_once. Qed.
Print Assumptions c12_link_migrates_once.

(* balances follow the wallet once linked and are shared by all its nodes *)
Theorem c12_linked_nodes_share : forall st i a,
  aget i (s_link st) = Some a -> node_bal st i = acct_bal st a.
Proof. exact linked_nodes_share. Qed.
Theorem c12_add_node_bal_linked : forall X E now st i a d,
  registered st i = true -> aget i (s_link st) = Some a ->
  let st' := fst (sstep X E now st (AddNodeBal i d)) in
  b_credit (acct_bal st' a) = b_credit (acct_bal st a) + d /\ s_trial st' = s_trial st /\ s_link st' = s_link st.
Proof. exact add_node_bal_linked. Qed.
Theorem c12_add_node_bal_trial : forall X E now st i d,
  registered st i = true -> aget i (s_link st) = None ->
  let st' := fst (sstep X E now st (AddNodeBal i d)) in
  b_credit (trial_bal st' i) = b_credit (trial_bal st i) + d /\ s_acct st' = s_acct st.
Proof. exact add_node_bal_trial. Qed.
Print Assumptions c12_add_node_bal_linked.

(* active-host queries honour host flag, kind and recency (the limit is checked on the
   implementation's answer by the correspondence predicate: duplicate-free subset of exactly
   min(limit, supply) hosts, all of them when limit = 0) *)
Theorem c12_active_hosts : forall X E now st kind limit,
  exists l, sstep X E now st (ActiveHosts kind limit) = (st, RHosts l limit) /\
  forall nd, In nd l <->
    In nd (map snd (s_nodes st)) /\ n_host nd = true /\ (kind = 0%N \/ n_kind nd = kind) /\ now - X < n_seen nd.
Proof. exact active_hosts_exact. Qed.
Print Assumptions c12_active_hosts.

(* aggregate statistics equal the true counts and sums *)
Theorem c12_stats_true : forall X now st,
  let s := mk_stats X now st in
  st_total_credit s = total st /\
  (st_total_hosts s + st_total_clients s = length (s_nodes st))%nat /\
  (st_active_hosts s <= st_total_hosts s)%nat /\ (st_active_clients s <= st_total_clients s)%nat /\
  (forall nd, In nd (map snd (s_nodes st)) -> (n_block nd <= st_latest_block s)%N).
Proof. exact stats_true. Qed.
Print Assumptions c12_stats_true.

(* every operation moves the ledger total by exactly its own amount (used by C01) *)
Theorem c12_total_step : forall X E now st o,
  Inv st -> total (fst (sstep X E now st o)) = total st + ledger_delta st o.
Proof. exact total_step. Qed.
Print Assumptions c12_total_step.

(* non-vacuity: a concrete history through linking, re-linking and statistics *)
Example c12_example :
  let X := 120000000000 in let E := 900000000000 in
  let nd i := {| n_id := i; n_uri := 0; n_seen := 1000; n_kind := 0; n_host := true; n_payout := 0; n_block := 7 |} in
  let st := srun X E s0 [(1000, SetNode (nd 1%N)); (1000, SetNode (nd 2%N)); (1001, AddNodeBal 1%N 7);
                          (1002, AddAcctNode 5%N 1%N); (1003, AddAcctNode 5%N 2%N); (1004, AddNodeBal 2%N (-3));
                          (1005, AddAcctNode 6%N 1%N)] in
  snd (sstep X E 1006 st (GetNodeBal 2%N)) = RBal {| b_acct := 5%N; b_credit := 4 |} /\
  snd (sstep X E 1006 st (GetNodeBal 1%N)) = RBal {| b_acct := 6%N; b_credit := 0 |} /\
  total st = 4.
Proof. vm_compute. auto. Qed.

(* the persistent driver conforms to the contract also when its optimistic transactions are run
   again after a conflict: no value it decodes a stored record into outlives one read (a retried
   keep-alive restoring the fields of the record it had read first was D31; regenerated fact) *)
Theorem c12_decode_targets_are_fresh : badger_stale_decode_targets = [].
Proof. reflexivity. Qed.

(* why the fact above is what matters (Retry.v: decoding INTO a value keeps the fields that the
   stored record does not have): with a fresh value per attempt a retried keep-alive writes the
   keep-alive of what the store holds now, whatever the aborted attempt had read; with the value
   kept across attempts a host that re-registered as a light client in between is written back as a
   host at its old address (D31) *)
From VP Require Import Retry.
Theorem c12_fresh_target_reads_the_store : forall now blk s1 s2,
  retried_keepalive true now blk s1 s2 = keepalive now blk s2.
Proof. exact fresh_target_reads_the_store. Qed.
Print Assumptions c12_fresh_target_reads_the_store.
Theorem c12_stale_target_refuted :
  let host := {| r_host := true; r_uri := 7; r_kind := 1; r_payout := 9; r_seen := 100; r_block := 5 |} in
  let client := {| r_host := false; r_uri := 0; r_kind := 0; r_payout := 0; r_seen := 200; r_block := 0 |} in
  retried_keepalive false 300 6 host client = {| r_host := true; r_uri := 7; r_kind := 1; r_payout := 9; r_seen := 300; r_block := 6 |} /\
  retried_keepalive true 300 6 host client = {| r_host := false; r_uri := 0; r_kind := 0; r_payout := 0; r_seen := 300; r_block := 6 |}.
Proof. exact stale_target_restores_old_fields. Qed.
