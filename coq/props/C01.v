(* C01 — the pool ledger is zero-sum: credit is only ever moved, never created or lost. *)
From VP Require Import Base Nonce Store StoreProofs Pool PoolProofs Conc ConcProofs.

(* one operation: connect, reconnect, keep-alive (accepted, refused, failed or cut off), peer
   request, account linking, deposit, refused request — the total of wallet and trial credit is
   unchanged; a withdrawal changes it by exactly the credit it settled *)
Theorem c01_step : forall cfg s o,
  Good (ps_store s) ->
  Good (ps_store (fst (pstep cfg s o))) /\
  total (ps_store (fst (pstep cfg s o))) = total (ps_store s) - settled_step cfg s o.
Proof. exact pstep_total. Qed.
Print Assumptions c01_step.

(* every history, every price / interval / minimum-balance configuration *)
Theorem c01_history : forall cfg ops,
  total (ps_store (prun cfg ps0 ops)) = 0 - settled_run cfg ps0 ops.
Proof. intros. apply (prun_total cfg ops ps0). apply Good_s0. Qed.
Print Assumptions c01_history.

(* the balance manager alone: whatever OnUpdate returns (balance, low-balance error, store
   error), the total is unchanged *)
Theorem c01_on_update : forall cfg dep now_b st nd peers,
  Good st -> registered st (n_id nd) = true ->
  Good (fst (on_update cfg dep now_b st nd peers)) /\ total (fst (on_update cfg dep now_b st nd peers)) = total st.
Proof. exact on_update_total. Qed.
Print Assumptions c01_on_update.

(* many agents at once: every interleaving of the store actions of any number of concurrent
   connects, keep-alives, account linkings and withdrawals, with arbitrary clock values *)
Theorem c01_concurrent : forall X E st thr sch,
  Good st -> Forall served thr ->
  let c' := run_sched X E {| c_st := st; c_thr := thr |} sch in
  forallb finished (c_thr c') = true ->
  total (c_st c') = total st - zsuml (map settled_of_prog (c_thr c')).
Proof. exact concurrent_zero_sum. Qed.
Print Assumptions c01_concurrent.

(* non-vacuity: two clients sharing a host update concurrently (interleaved store actions);
   both complete, the host holds what the two clients paid *)
Definition ex_cfg : pcfg := {| p_X := 120; p_E := 900; p_price := 1000; p_interval := 60;
  p_min := None; p_wmin := None; p_fee := 0; p_settle_enabled := true |}.
Definition ex_node i h := {| n_id := i; n_uri := 0; n_seen := 0; n_kind := 0; n_host := h; n_payout := 0; n_block := 0 |}.
Definition ex_store : sstate :=
  srun 120 900 s0 [(0, SetNode (ex_node 1%N true)); (0, SetNode (ex_node 2%N false)); (0, SetNode (ex_node 3%N false));
                   (1, UpdatePeers 2%N [1%N] 0%N); (1, UpdatePeers 3%N [1%N] 0%N)].
Example c01_example :
  let c' := run_sched 120 900 {| c_st := ex_store;
              c_thr := [update_prog ex_cfg 2%N [1%N] 0%N 61; update_prog ex_cfg 3%N [1%N] 0%N 121] |}
              [(0%nat, 60); (1%nat, 61); (1%nat, 62); (0%nat, 63); (0%nat, 64); (1%nat, 65); (1%nat, 66); (0%nat, 67);
               (0%nat, 68); (1%nat, 69); (1%nat, 70); (0%nat, 71)] in
  forallb finished (c_thr c') = true /\ total (c_st c') = 0 /\
  b_credit (node_bal (c_st c') 1%N) = 3000 /\ b_credit (node_bal (c_st c') 2%N) = -1000.
Proof. vm_compute. auto. Qed.
