(* C20 — an agent runs one keep-alive loop that can always be stopped and restarted. *)
From VP Require Import Base Life LifeProofs.
From VP Require Claim ClaimProofs.
From VPgen Require Import Facts.

Theorem c20_one_loop : forall ops, LInv (lrun true l0 ops) /\ (l_loops (lrun true l0 ops) <= 1)%nat.
Proof. exact one_loop. Qed.
Print Assumptions c20_one_loop.

Theorem c20_double_start : forall s oc, LInv s -> l_started s = true -> lstep true s (LStart oc) = (s, RAlreadyStarted).
Proof. exact double_start. Qed.

Theorem c20_failed_start : forall s oc, oc <> SOk -> l_started s = false ->
  let s1 := fst (lstep true s (LStart oc)) in
  l_loops s1 = l_loops s /\ l_started s1 = false /\ snd (lstep true s (LStart oc)) = RStartErr /\
  snd (lstep true s1 (LStart SOk)) = RStartOk.
Proof. exact failed_start. Qed.

Theorem c20_stop_wait : forall s,
  LInv s -> l_started s = true ->
  let s1 := fst (lstep true s LStop) in
  let '(s2, w) := lstep true s1 LWait in
  l_loops s1 = 0%nat /\ w = RWait WNil /\ snd (lstep true s2 (LStart SOk)) = RStartOk /\
  l_loops (fst (lstep true s2 (LStart SOk))) = 1%nat.
Proof. exact stop_wait_restart. Qed.
Print Assumptions c20_stop_wait.

Theorem c20_failed_keepalive : forall s,
  LInv s -> l_started s = true ->
  let s1 := fst (lstep true s LTickFail) in
  let '(s2, w) := lstep true s1 LWait in
  l_loops s1 = 0%nat /\ w = RWait WErr /\ snd (lstep true s2 (LStart SOk)) = RStartOk.
Proof. exact failed_keepalive_restart. Qed.

(* also after any number of runs that ended on a failing keep-alive and were never waited for *)
Theorem c20_restart_after_uncollected_failures : forall n,
  let s := lrun true l0 (failed_runs n ++ [LStart SOk]) in
  let s1 := fst (lstep true s LStop) in
  let '(s2, w) := lstep true s1 LWait in
  l_started s = true /\ w = RWait WNil /\ snd (lstep true s2 (LStart SOk)) = RStartOk.
Proof. exact restart_after_uncollected_failures. Qed.

Theorem c20_cadence : forall ops,
  let s := lrun true l0 ops in snd (lstep true s LTick) = RTick (if l_started s then 1 else 0)%nat.
Proof. exact cadence. Qed.

(* the command line accepts only intervals shorter than the pool's expiry window: the bounds are
   regenerated from agent.go and store.go on every run *)
Theorem c20_interval : forall d,
  interval_ok c_minUpdateInterval c_maxUpdateInterval d = true -> d < c_ExpireInterval.
Proof. intros d H. apply interval_below_expiry in H. exact H. Qed.
Theorem c20_bounds : c_maxUpdateInterval = c_ExpireInterval /\ 0 < c_minUpdateInterval < c_maxUpdateInterval /\
                     c_ExpireInterval = 2 * c_KeepaliveInterval.
Proof. vm_compute. repeat split; reflexivity. Qed.
Print Assumptions c20_interval.

Theorem c20_no_flag_refuted :
  l_loops (lrun false l0 [LStart SOk; LStart SOk]) = 2%nat /\
  snd (lstep false (lrun false l0 [LStart SOk]) (LStart SOk)) = RStartOk /\
  snd (lstep true (lrun true l0 [LStart SOk]) (LStart SOk)) = RAlreadyStarted.
Proof. exact no_flag_refuted. Qed.

(* overlapping Start calls.  Start tests and sets [started] in one stretch holding the agent's
   mutex and gives the claim back when the start fails (structural facts regenerated from
   agent/agent.go on every run); it registers with the pool outside the mutex.  For that shape —
   any number of Start and Stop calls, their steps interleaved in any order, the pool refusing
   any of the registrations — there is never more than one keep-alive loop and never a loop
   beside a start in flight; a Start arriving while the agent is claimed or running is refused,
   one arriving otherwise becomes the loop once the pool accepts it.  Testing and setting in two
   separate stretches is refuted: two loops, and one Stop leaves one running. *)
Theorem c20_start_is_test_and_set :
  agent_start_test_and_set_atomic = true /\ agent_start_gives_claim_back = true.
Proof. vm_compute. auto. Qed.
Theorem c20_one_loop_under_overlapping_starts : forall ops,
  let s := Claim.crun true Claim.cst0 ops in
  (Claim.c_loops s <= 1)%nat /\ (Claim.c_loops s = 1%nat -> Claim.claimers s = []) /\
  (Claim.c_started s = false -> Claim.c_loops s = 0%nat).
Proof. exact ClaimProofs.one_loop. Qed.
Print Assumptions c20_one_loop_under_overlapping_starts.
Theorem c20_overlapping_start_outcomes : forall ops t,
  let s := Claim.crun true Claim.cst0 ops in
  Claim.cphase_of s t = Claim.CIdle ->
  exists s1, Claim.cstep true s (Claim.KEnter t) = Some s1 /\
    (Claim.c_started s = true -> Claim.cphase_of s1 t = Claim.CRefused /\ Claim.c_loops s1 = Claim.c_loops s) /\
    (Claim.c_started s = false -> Claim.cphase_of s1 t = Claim.CClaimed /\
        exists s2, Claim.cstep true s1 (Claim.KOk t) = Some s2 /\ Claim.c_loops s2 = 1%nat /\
                   Claim.cphase_of s2 t = Claim.CRunning).
Proof. exact ClaimProofs.start_outcomes. Qed.
Theorem c20_split_test_and_set_refuted :
  Claim.c_loops (Claim.crun false Claim.cst0 ClaimProofs.split_trace) = 2%nat /\
  Claim.c_loops (Claim.crun false Claim.cst0 (ClaimProofs.split_trace ++ [Claim.KStop])) = 1%nat /\
  Claim.c_loops (Claim.crun true Claim.cst0 ClaimProofs.split_trace) = 1%nat /\
  Claim.cphase_of (Claim.crun true Claim.cst0 ClaimProofs.split_trace) 2%N = Claim.CRefused.
Proof. exact ClaimProofs.split_start_refuted. Qed.

(* At the grain of single keep-alives (Inflight.v: calls and returns of Start, Stop and Wait, the
   begin and end of every keep-alive the pool receives; a keep-alive may take any time, and the
   loop looks at the stop request only between keep-alives).  "Can always be stopped": in every
   history the agent can produce, once a Stop call has returned no keep-alive begins until Start
   is called again; Stop returns only with the loop idle and ended, the run's result is queued
   for Wait and a new Start is accepted.  A Stop that returns after a while with the keep-alive
   still in flight is not a history of this system. *)
From VP Require Import Inflight InflightProofs.
Theorem c20_no_keepalive_after_stop_returns : forall pre mid post,
  irun false i0 (pre ++ EStopRet :: mid ++ EKB :: post) <> None -> In EStartCall mid.
Proof. exact no_keepalive_after_stop_returns. Qed.
Print Assumptions c20_no_keepalive_after_stop_returns.
Theorem c20_stop_return_ends_the_run : forall pre s s',
  irun false i0 pre = Some s -> istep false s EStopRet = Some s' ->
  i_loop s = true /\ i_busy s = false /\ i_loop s' = false /\ i_started s' = false /\ i_results s' = S (i_results s) /\
  istep false s' EWaitRet <> None /\
  (i_starting s' = false -> exists s'', istep false s' EStartCall = Some s'' /\ i_start_ok s'' = true).
Proof. exact stop_return_ends_the_run. Qed.
Print Assumptions c20_stop_return_ends_the_run.
Theorem c20_stop_that_gives_up_refuted :
  let h := [EStartCall; EKB; EKE true; EStartRet true; EKB; EStopCall; EStopRet; EKE true; EKB; EKE true] in
  irun true i0 h <> None /\ ifail false i0 h 0 = Some 6%nat /\
  let h' := [EStartCall; EKB; EKE true; EStartRet true; EKB; EStopCall; EKE true; EKB; EKE true; EStopRet; EWaitRet; EStartCall] in
  irun false i0 h' <> None.
Proof. exact stop_that_gives_up_refuted. Qed.

(* The flag around the END of a loop (Winddown.v: the goroutine Start spawns around the loop winds
   down some time after the loop has returned; a Start may come in between).  With the flag cleared
   once per ended loop — by the loop for a stop, by its goroutine for a failed keep-alive — there
   are never two loops, under every interleaving of starts, stops, failing keep-alives and
   wind-downs, and the agent can be started again exactly when nothing runs.  A goroutine that
   clears the flag again for a stopped loop lets a second Start through (D30); the source as it
   is does not do that (regenerated fact). *)
From VP Require Import Winddown.
Theorem c20_one_loop_through_winddown : forall ops,
  let s := wrun false wst0 ops in (w_loops s <= 1)%nat /\ (w_started s = false <-> (w_loops s + w_wind_fail s = 0)%nat).
Proof. exact one_loop_through_winddown. Qed.
Print Assumptions c20_one_loop_through_winddown.
Theorem c20_double_clear_refuted :
  w_loops (wrun true wst0 [WStart; WStop; WStart; WWoundStop; WStart]) = 2%nat /\
  w_loops (wrun false wst0 [WStart; WStop; WStart; WWoundStop; WStart]) = 1%nat.
Proof. exact double_clear_refuted. Qed.
Theorem c20_stopped_loop_clears_flag_once : agent_stopped_loop_clears_flag_twice = false.
Proof. reflexivity. Qed.
