(* C20 — an agent runs one keep-alive loop that can always be stopped and restarted. *)
From VP Require Import Base Life LifeProofs.
From VPgen Require Import Facts.

Theorem c20_one_loop : forall ops, LInv (lrun true l0 ops) /\ (l_loops (lrun true l0 ops) <= 1)%nat.
Proof. exact one_loop. Qed.
Print Assumptions c20_one_loop.

Theorem c20_double_start : forall s oc, LInv s -> l_started s = true -> lstep true s (LStart oc) = (s, RAlreadyStarted).
Proof. exact double_start. Qed.

Theorem c20_failed_start : forall s oc, oc <> SOk -> l_started s = false ->
  fst (lstep true s (LStart oc)) = s /\ snd (lstep true s (LStart oc)) = RStartErr.
Proof. exact failed_start. Qed.

Theorem c20_stop_wait : forall s,
  LInv s -> l_started s = true -> l_waitq s = [] ->
  let s1 := fst (lstep true s LStop) in
  let '(s2, w) := lstep true s1 LWait in
  l_loops s1 = 0%nat /\ w = RWait WNil /\ snd (lstep true s2 (LStart SOk)) = RStartOk /\
  l_loops (fst (lstep true s2 (LStart SOk))) = 1%nat.
Proof. exact stop_wait_restart. Qed.
Print Assumptions c20_stop_wait.

Theorem c20_failed_keepalive : forall s,
  LInv s -> l_started s = true -> l_waitq s = [] ->
  let s1 := fst (lstep true s LTickFail) in
  let '(s2, w) := lstep true s1 LWait in
  l_loops s1 = 0%nat /\ w = RWait WErr /\ snd (lstep true s2 (LStart SOk)) = RStartOk.
Proof. exact failed_keepalive_restart. Qed.

Theorem c20_cadence : forall ops,
  let s := lrun true l0 ops in snd (lstep true s LTick) = RTick (if l_started s then 1 else 0)%nat.
Proof. exact cadence. Qed.

(* the command line accepts only intervals shorter than the pool's expiry window: the bounds are
   regenerated from agent.go and store.go on every run *)
Theorem c20_interval : forall d,
  interval_ok c_minUpdateInterval c_maxUpdateInterval d = true -> d < c_ExpireInterval.
Proof. intros d H. apply interval_below_expiry in H. exact H. Qed.
Theorem c20_bounds : c_maxUpdateInterval = c_ExpireInterval /\ 0 < c_minUpdateInterval < c_maxUpdateInterval /\
                     c_ExpireInterval = 2 * c_KeepaliveInterval.
Proof. vm_compute. repeat split; reflexivity. Qed.
Print Assumptions c20_interval.

Theorem c20_no_flag_refuted :
  l_loops (lrun false l0 [LStart SOk; LStart SOk]) = 2%nat /\
  snd (lstep false (lrun false l0 [LStart SOk]) (LStart SOk)) = RStartOk /\
  snd (lstep true (lrun true l0 [LStart SOk]) (LStart SOk)) = RAlreadyStarted.
Proof. exact no_flag_refuted. Qed.
