(* C13 — the persistent store keeps every acknowledged change across restarts and crashes. *)
From VP Require Import Base Nonce Store StoreProofs Durable DurableProofs.
From VPgen Require Import Facts.

(* structural facts regenerated from pool/store/badger/*.go on every run: every Store method
   runs exactly one badger transaction, issues no write outside it, and Migrate is one update *)
Theorem c13_one_transaction_per_method :
  forallb (fun p => let '(u, v, outside) := snd p in (u + v =? 1) && (outside =? 0)) txn_shape = true /\
  migrate_txns = 1 /\ c_dbVersion = 2.
Proof. vm_compute. auto. Qed.
Print Assumptions c13_one_transaction_per_method.

(* the writes of each method, applied together, are exactly the contract step *)
Theorem c13_writes_refine : forall X E now st o v,
  NodeKeys st -> driver_op o = true ->
  d_st (apply_writes {| d_ver := v; d_st := st |} (writes_of X E now st o)) = fst (sstep X E now st o) /\
  d_ver (apply_writes {| d_ver := v; d_st := st |} (writes_of X E now st o)) = v.
Proof. exact writes_refine. Qed.
Print Assumptions c13_writes_refine.

(* a crash at any point inside an operation leaves the state before it or the state after it *)
Theorem c13_atomic : forall X E now st o v d',
  NodeKeys st -> driver_op o = true ->
  In d' (crash_states 1 {| d_ver := v; d_st := st |} (writes_of X E now st o)) ->
  d' = {| d_ver := v; d_st := st |} \/ d' = {| d_ver := v; d_st := fst (sstep X E now st o) |}.
Proof. exact crash_atomic. Qed.
Print Assumptions c13_atomic.

(* in particular a trial balance is never both migrated and kept, or lost: invariant and
   ledger total survive every crash point *)
Theorem c13_trial_never_duplicated : forall X E now st o v d',
  NodeKeys st -> driver_op o = true -> Inv st ->
  In d' (crash_states 1 {| d_ver := v; d_st := st |} (writes_of X E now st o)) ->
  Inv (d_st d') /\ (total (d_st d') = total st \/ total (d_st d') = total st + ledger_delta st o).
Proof. exact crash_conserves. Qed.
Print Assumptions c13_trial_never_duplicated.

(* the model can express the failure (non-vacuity of the atomicity statement) *)
Theorem c13_split_transactions_refuted :
  exists d', In d' (crash_states 2 {| d_ver := 2; d_st := split_witness_state |}
                                 (writes_of 120 900 20 split_witness_state (AddAcctNode 5%N 1%N))) /\
             total (d_st d') = 14 /\ total split_witness_state = 7.
Proof. exact split_transactions_refuted. Qed.

(* acknowledged changes are read back unchanged across any number of restarts and kills:
   the recovered state is the state of the acknowledged (or committed) operations alone *)
Theorem c13_ack_durable : forall X E latest evs st,
  fold_left (hstep X E latest) evs (Some {| d_ver := latest; d_st := st |}) =
  Some {| d_ver := latest; d_st := srun X E st (flat_map erase evs) |}.
Proof. exact ack_durable. Qed.
Print Assumptions c13_ack_durable.

(* format migrations *)
Theorem c13_migrate_from_old : forall st,
  migrate 2 {| d_ver := 0; d_st := st |} = Some {| d_ver := 2; d_st := upd_nonce st [] |} /\
  migrate 2 {| d_ver := 1; d_st := st |} = Some {| d_ver := 2; d_st := upd_nonce st [] |} /\
  migrate 2 {| d_ver := 2; d_st := st |} = Some {| d_ver := 2; d_st := st |}.
Proof. exact migrate_from_old. Qed.
Theorem c13_migrate_keeps_ledger : forall v st d',
  migrate 2 {| d_ver := v; d_st := st |} = Some d' ->
  d_ver d' = 2 /\ s_nodes (d_st d') = s_nodes st /\ s_peers (d_st d') = s_peers st /\
  s_link (d_st d') = s_link st /\ s_acct (d_st d') = s_acct st /\ s_trial (d_st d') = s_trial st.
Proof. exact migrate_keeps_ledger. Qed.
Theorem c13_reopen_current_is_identity : forall latest d, d_ver d = latest -> migrate latest d = Some d.
Proof. exact migrate_current_id. Qed.
Theorem c13_migrate_newer_refused : forall v st, 2 < v -> migrate 2 {| d_ver := v; d_st := st |} = None.
Proof. exact migrate_newer_refused. Qed.
Print Assumptions c13_migrate_keeps_ledger.

(* How the persistent driver reads what it wrote: gob does not store zero values and leaves the
   fields that are absent from the stored bytes as they are in the value it decodes into. A value
   that outlives one read -- kept outside the transaction closure that the driver's update() runs
   again after a conflict, or outside the loop whose iterations each decode into it -- carries the
   previous read's fields into the next one, and what was acknowledged is not what is read back
   (D31). In the source as it is no value handed to getItem does (regenerated fact). *)
Theorem c13_decode_targets_are_fresh : badger_stale_decode_targets = [].
Proof. reflexivity. Qed.

(* why the fact above is what matters (Retry.v: decoding INTO a value keeps the fields that the
   stored record does not have): with a fresh value per attempt a retried keep-alive writes the
   keep-alive of what the store holds now, whatever the aborted attempt had read; with the value
   kept across attempts a host that re-registered as a light client in between is written back as a
   host at its old address (D31) *)
From VP Require Import Retry.
Theorem c13_fresh_target_reads_the_store : forall now blk s1 s2,
  retried_keepalive true now blk s1 s2 = keepalive now blk s2.
Proof. exact fresh_target_reads_the_store. Qed.
Print Assumptions c13_fresh_target_reads_the_store.
Theorem c13_stale_target_refuted :
  let host := {| r_host := true; r_uri := 7; r_kind := 1; r_payout := 9; r_seen := 100; r_block := 5 |} in
  let client := {| r_host := false; r_uri := 0; r_kind := 0; r_payout := 0; r_seen := 200; r_block := 0 |} in
  retried_keepalive false 300 6 host client = {| r_host := true; r_uri := 7; r_kind := 1; r_payout := 9; r_seen := 300; r_block := 6 |} /\
  retried_keepalive true 300 6 host client = {| r_host := false; r_uri := 0; r_kind := 0; r_payout := 0; r_seen := 300; r_block := 6 |}.
Proof. exact stale_target_restores_old_fields. Qed.
