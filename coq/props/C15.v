(* C15 — no message from the network can crash or wedge a pool or an agent. *)
From Coq Require Import String.
From VP Require Import Base Dispatch Total TotalProofs Wedge WedgeProofs.
From VPgen Require Import Facts.
Open Scope string_scope.

(* whatever the shape of a message read from a connection, handling it does not panic *)
Theorem c15_total : forall m be, serve_step m be <> Panic /\ http_step m be <> Panic.
Proof. exact serve_total. Qed.
Print Assumptions c15_total.

(* every request receives a well-formed reply carrying its own id and either a result or an error *)
Theorem c15_reply_shape : forall m be,
  request_part m = true ->
  exists code, serve_step m be = Reply (m_has_id m) (m_id m) code /\
  (code = COk <-> (m_has_method m && m_method_known m = true /\ parse_ok (m_args m) (m_params m) = true /\ be = false)).
Proof. exact reply_shape. Qed.
Print Assumptions c15_reply_shape.

Theorem c15_stray_message : forall m be,
  request_part m = false -> serve_step m be = if m_has_id m then Routed (m_id m) else Dropped.
Proof. exact stray_message. Qed.

(* any reply routed to a waiting caller — without result and error, null, error, wrong type — makes
   the caller return a value or an error, never crash *)
Theorem c15_reply_consume_total : forall m, call_consume true m <> CallPanic.
Proof. exact reply_consume_total. Qed.
Print Assumptions c15_reply_consume_total.

(* the pinned code dereferenced the response part unconditionally *)
Theorem c15_unguarded_consume_refuted :
  call_consume false bare_reply = CallPanic /\ call_consume true bare_reply = CallError /\ serve_step bare_reply false = Routed 1.
Proof. exact unguarded_consume_refuted. Qed.

(* the panic-capable expressions (slices, indexes of non-maps, unchecked assertions, explicit panics,
   makes with a computed size) in the network-facing functions, regenerated from the sources on every
   run, are exactly the reviewed ones, each of which is guarded: *)
Definition reviewed_sites : list (string * string * string * string) :=

  [("ethnode/rpc.go", "PeerInfo.EnodeID", "slice", "p.Enode[8 : 8+128]");
   ("internal/pretty/abbrev.go", "Abbrev", "index", "ranges[0]");
   ("internal/pretty/abbrev.go", "Abbrev", "index", "ranges[0]");
   ("internal/pretty/abbrev.go", "Abbrev", "index", "ranges[0]");
   ("internal/pretty/abbrev.go", "Abbrev", "index", "ranges[1]");
   ("internal/pretty/abbrev.go", "Abbreviated.String", "slice", "s.Original[:s.CutTo]");
   ("jsonrpc2/borrowed_eth.go", "parsePositionalArguments", "index", "types[i]");
   ("jsonrpc2/borrowed_eth.go", "parsePositionalArguments", "index", "types[i]");
   ("jsonrpc2/borrowed_eth.go", "parsePositionalArguments", "index", "types[i]");
   ("jsonrpc2/borrowed_eth.go", "parsePositionalArguments", "index", "types[i]");
   ("jsonrpc2/method.go", "Method.Call", "assert", "reply[m.ErrPos].Interface().(error)");
   ("jsonrpc2/method.go", "Method.Call", "index", "reply[0]");
   ("jsonrpc2/method.go", "Method.Call", "index", "reply[m.ErrPos]");
   ("jsonrpc2/method.go", "Method.Call", "index", "reply[m.ErrPos]");
   ("jsonrpc2/method.go", "methodArgTypes", "make", "make([]reflect.Type, 0, argNum-1)");
   ("jsonrpc2/pending.go", "pendingOldest", "slice", "queue[:num]");
   ("jsonrpc2/pending.go", "pendingQueue.Less", "index", "p[i]");
   ("jsonrpc2/pending.go", "pendingQueue.Less", "index", "p[j]");
   ("jsonrpc2/pending.go", "pendingQueue.Swap", "index", "p[i]");
   ("jsonrpc2/pending.go", "pendingQueue.Swap", "index", "p[i]");
   ("jsonrpc2/pending.go", "pendingQueue.Swap", "index", "p[j]");
   ("jsonrpc2/pending.go", "pendingQueue.Swap", "index", "p[j]");
   ("jsonrpc2/server.go", "Server.Register", "index", "name[0]");
   ("jsonrpc2/server.go", "Server.Register", "slice", "buf.String()[len(prefix):]");
   ("jsonrpc2/server.go", "Server.Register", "slice", "name[1:]");
   ("pool/payment/service.go", "PaymentService.Account", "slice", "string(nodeID)[:12]");
   ("pool/service.go", "VipnodePool.requestHosts", "slice", "remotes[:numRequestHosts]");
   ("pool/status/status.go", "nodeHost", "slice", "shortID[:12]");
   ("request/address.go", "AddressRequest.Verify", "index", "sigbytes[64]");
   ("request/address.go", "AddressRequest.Verify", "index", "sigbytes[64]");
   ("request/address.go", "AddressRequest.Verify", "index", "sigbytes[64]");
   ("request/address.go", "AddressRequest.Verify", "slice", "sig[2:]");
   ("request/node.go", "NodeRequest.Verify", "slice", "sigbytes[:64]")].
(* justification per function:
   PeerInfo.EnodeID: guarded by len(p.Enode) <= 8+128 (theorem c02_enode_id)
   Abbrev: guarded by len(ranges) checks
   Abbreviated.String: guarded by len(s.Original) > MaxLen; network code passes MaxLen = CutTo
   parsePositionalArguments: guarded by i >= len(types) check in the loop / loop bound
   Method.Call: reflection results: len(reply) checked, ErrPos fixed at registration, value typed error
   methodArgTypes: a method value has at least its receiver: NumIn >= 1
   pendingOldest: num clamped to len(queue)
   pendingQueue.Less: sort.Interface indices
   pendingQueue.Swap: sort.Interface indices
   Server.Register: Go method names are non-empty; buf starts with prefix
   PaymentService.Account: registered node ids have at least 42 characters (verification accepts 128-hex node ids or 42-character addresses only)
   VipnodePool.requestHosts: guarded by len(remotes) > numRequestHosts, numRequestHosts > 0
   nodeHost: guarded by len(shortID) > 12
   AddressRequest.Verify: guarded by len(sigbytes) != 65 / HasPrefix 0x
   NodeRequest.Verify: guarded by len(sigbytes) < 64
*)
(* the comparison is by file, kind and expression text, as multisets: moving an expression to a
   helper function of the same file, or reordering functions, is not a new site; a new or
   changed expression is *)
Definition site_key_eqb (x y : string * string * string * string) : bool :=
  let '(f1, _, k1, e1) := x in let '(f2, _, k2, e2) := y in
  String.eqb f1 f2 && String.eqb k1 k2 && String.eqb e1 e2.
Definition site_count (x : string * string * string * string) (l : list (string * string * string * string)) : nat :=
  length (filter (site_key_eqb x) l).
(* every site of the current tree is a reviewed one (a site that went away needs no review) *)
Definition site_list_eqb (current reviewed : list (string * string * string * string)) : bool :=
  forallb (fun x => Nat.leb (site_count x current) (site_count x reviewed)) current.
Theorem c15_sites_reviewed : site_list_eqb panic_sites reviewed_sites = true.
Proof. vm_compute. reflexivity. Qed.
Print Assumptions c15_sites_reviewed.

(* "every other connection keeps being served": no wedge.  The handlers of all connections share
   the pool mutex.  The stretches of pool/service.go that hold it contain no wait for another
   party (structural facts regenerated from the source on every run); for handlers of that shape,
   in every reachable state and whatever replies remote peers withhold for ever, a handler that
   is not itself waiting for a remote party performs its next step after finitely many steps of
   the others.  A handler that does wait under the mutex wedges all the others. *)
Theorem c15_pool_mutex_never_held_while_waiting :
  (0 <? pool_mutex_spans)%Z = true /\ pool_mutex_waits_inside = 0%Z.
Proof. vm_compute. auto. Qed.
Theorem c15_no_wedge : forall thr sch t,
  Forall (fun p => wf false p = true) thr ->
  let s := wrun {| w_holder := None; w_thr := thr |} sch in
  finished_thr s t = false -> next_is_wait s t = false ->
  exists sch2 s', wstep (wrun s sch2) t = Some s' /\ steps_left s' t = pred (steps_left s t).
Proof. exact no_wedge. Qed.
Print Assumptions c15_no_wedge.
Theorem c15_waiting_under_the_mutex_wedges : forall sch,
  let s := wrun {| w_holder := None; w_thr := wedged_threads |} (0%nat :: sch) in
  wstep s 1%nat = None /\ next_is_wait s 1%nat = false /\ finished_thr s 1%nat = false.
Proof. exact waiting_under_the_mutex_wedges. Qed.
