(* C18 — the agent makes its node's peers match what the pool says. *)
From VP Require Import Base Nonce Store Agent AgentProofs ReqHosts ReqHostsProofs Compose.

(* after a keep-alive round exactly the peers the pool declared invalid — and, with strict
   peering, the local peers the pool does not list as active under the same host — have been
   un-trusted and disconnected, each of them both, and no other peer *)
Theorem c18_invalid_exact : forall cfg locals active invalid de pr cf i,
  let out := update_round cfg true locals (UpdateOk active invalid) de pr cf in
  (In (CRemoveTrusted i) (fst out) \/ In (CDisconnect i) (fst out)) <-> In i (drop_list cfg locals active invalid).
Proof. intros. apply dropped_exact. Qed.
Theorem c18_both_calls : forall cfg locals active invalid de pr cf i,
  In i (drop_list cfg locals active invalid) ->
  dropped (fst (update_round cfg true locals (UpdateOk active invalid) de pr cf)) i.
Proof. intros. now apply dropped_both. Qed.
Theorem c18_drop_list : forall cfg locals active invalid i,
  In i (drop_list cfg locals active invalid) <->
  In i (map pf_id invalid) \/
  (ac_strict cfg = true /\ exists p, In p locals /\ pf_id p = i /\ strict_match (strict_lookup active []) p = false).
Proof. intros. apply drop_list_spec. Qed.
Print Assumptions c18_invalid_exact.

(* hosts are compared, ports never: a local peer matches iff the pool lists its id with the same
   remote host (the parsed references carry no port) *)
Theorem c18_strict_match : forall lk p,
  strict_match lk p = true <-> pf_ok p = true /\ aget (pf_id p) lk = Some (pf_host p).
Proof.
  intros lk p. unfold strict_match. rewrite andb_true_iff. destruct (aget (pf_id p) lk) as [h|].
  - rewrite N.eqb_eq. split; intros [H1 H2]; split; auto; congruence.
  - split; intros [_ H]; discriminate.
Qed.

(* shortfall: exactly one Peer request for target - |active| hosts of the node's own kind if it is
   a light client (any kind for a full node); none when the target is met *)
Theorem c18_shortfall : forall cfg locals active invalid de pr cf,
  let out := update_round cfg true locals (UpdateOk active invalid) de pr cf in
  let need := ac_target cfg - Z.of_nat (length active) in
  (0 < need -> exists rest, filter (fun c => match c with CPeerRequest _ _ => true | _ => false end) (fst out)
                            = [CPeerRequest need (if ac_full_node cfg then 0%N else ac_kind cfg)] /\ rest = tt) /\
  (need <= 0 -> forall n k, ~ In (CPeerRequest n k) (fst out)).
Proof. intros. apply shortfall_request. Qed.
Print Assumptions c18_shortfall.

(* it connects to every host the pool returns *)
Theorem c18_connect_all : forall cfg locals active invalid de uris,
  0 < ac_target cfg - Z.of_nat (length active) ->
  forall u, In u uris -> In (CConnect u) (fst (update_round cfg true locals (UpdateOk active invalid) de (PeerOk uris) None)).
Proof. intros. eapply connects_all; eauto. Qed.

(* a failed keep-alive call changes nothing on the node *)
Theorem c18_failed_update : forall cfg locals de pr cf,
  fst (update_round cfg true locals UpdateFailed de pr cf) = [] /\
  forall ur, fst (update_round cfg false locals ur de pr cf) = [].
Proof. exact failed_update_no_calls. Qed.

(* every round of a multi-round history *)
Theorem c18_rounds : forall cfg rs k r active invalid,
  nth_error rs k = Some r -> ri_node_ok r = true -> ri_reply r = UpdateOk active invalid ->
  exists out, nth_error (run_rounds cfg rs) k = Some out /\
    forall i, (In (CRemoveTrusted i) (fst out) \/ In (CDisconnect i) (fst out)) <->
              In i (drop_list cfg (ri_locals r) active invalid).
Proof. exact rounds_exact. Qed.
Print Assumptions c18_rounds.

Example c18_example :
  let cfg := {| ac_strict := true; ac_target := 3; ac_full_node := false; ac_kind := 7 |} in
  let p i h := {| pf_ok := true; pf_id := i; pf_host := h |} in
  update_round cfg true [p 1 10; p 2 20; p 3 30]%N (UpdateOk [p 1 10; p 2 99]%N [p 5 0]%N) false (PeerOk [41; 42]%N) None
  = ([CRemoveTrusted 5; CDisconnect 5; CRemoveTrusted 2; CDisconnect 2; CRemoveTrusted 3; CDisconnect 3;
      CPeerRequest 1 7; CConnect 41; CConnect 42]%N, AOk).
Proof. vm_compute. reflexivity. Qed.

(* the agent's keep-alive round put together with the pool's answer to its peer request (the
   end-to-end cases run exactly this composition on the real Agent and the real pool): every host
   the client's node is told to connect to was sent the whitelist instruction for that client and
   acknowledged it, is connected, is not the client and not already its peer; and the node is told
   to connect to no more hosts than it was short of *)
Theorem c18_round_connects_only_whitelisted :
  forall (cfg : acfg) (locals active invalid : list pref) (drop_errors : bool)
    (st : sstate) (reg : registry) (maxh : Z) (self : N) (chosen : list N) (outs : amap outcome) (uri_of : N -> N),
  let need := ac_target cfg - Z.of_nat (length active) in
  let out := request_hosts st reg maxh self need chosen outs in
  let calls := fst (update_round cfg true locals (UpdateOk active invalid) drop_errors (peer_reply_of uri_of out) None) in
  (forall u, In (CConnect u) calls ->
     exists h, u = uri_of h /\ In h (rh_calls out) /\ is_ack (outcome_of outs h) = true /\
               h <> self /\ amem h reg = true /\ In h chosen /\ memb h (akeys (peers_of st self)) = false) /\
  (Z.of_nat (length (filter (fun c => match c with CConnect _ => true | _ => false end) calls)) <= Z.max 0 need).
Proof. exact round_connects_only_whitelisted. Qed.
Print Assumptions c18_round_connects_only_whitelisted.
