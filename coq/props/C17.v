(* C17 — messages arrive exactly once, intact and in order, however the transport chunks. *)
From VP Require Import Base Codec CodecProofs.

(* stream codec, one decoder per connection, any self-delimiting framing: whatever way the byte
   stream of a message sequence is cut into reads, exactly those messages come out, once each,
   in order, nothing left over *)
Theorem c17_stream : forall (msg : Type) (enc : msg -> bytes) (scan : bytes -> option (msg * bytes)) (valid : msg -> Prop),
  (forall m rest, valid m -> scan (enc m ++ rest) = Some (m, rest)) ->
  (forall m p q, valid m -> enc m = p ++ q -> q <> [] -> scan p = None) ->
  scan [] = None -> (forall m, enc m <> []) ->
  forall chunks ms, Forall valid ms -> concat chunks = concat (map enc ms) ->
  decode_stream msg scan [] chunks = (ms, []).
Proof. intros. eapply stream_exactly_once_init; eauto. Qed.
Print Assumptions c17_stream.

(* the framing jsonCodec actually writes (compact JSON + newline) satisfies those hypotheses *)
Theorem c17_scan_prefix_free : forall m rest p q,
  no_nl m -> scan_line (enc_line m ++ rest) = Some (m, rest) /\
  (enc_line m = p ++ q -> q <> [] -> scan_line p = None).
Proof. intros. split; [now apply line_scan_complete|now apply line_scan_partial]. Qed.
Theorem c17_stream_lines : forall chunks ms,
  Forall no_nl ms -> concat chunks = concat (map enc_line ms) ->
  decode_stream bytes scan_line [] chunks = (ms, []).
Proof. exact line_stream_exactly_once. Qed.
Print Assumptions c17_stream_lines.

(* a decoder created per ReadMessage (the pinned tree) drops what it read ahead *)
Theorem c17_per_message_decoder_refuted :
  let m1 := [123; 125]%N in let m2 := [123; 49; 125]%N in
  let chunk := enc_line m1 ++ enc_line m2 in
  decode_fresh bytes scan_line 5 [chunk] = [m1] /\
  decode_stream bytes scan_line [] [chunk] = ([m1; m2], []).
Proof. exact per_message_decoder_refuted. Qed.

(* WebSocket codecs: one message per frame; HTTP: one message per body *)
Theorem c17_ws_frames : forall (M : Type) (ms : list M), read_frames (write_frames ms) = ms.
Proof. intros. reflexivity. Qed.

(* writers holding the write lock for a whole message never interleave bytes *)
Theorem c17_locked_writers : forall (ws : list bytes) sched,
  emit_locked ws sched = concat (map (fun t => nth t ws []) sched).
Proof. exact locked_writers_never_interleave. Qed.
Print Assumptions c17_locked_writers.

(* writes that fail: as long as a failed write leaves nothing on the wire (it fails before it
   starts, or the connection is not used again), the reader gets exactly the messages whose write
   was reported as done — once, intact, in order, for every chunking and every pause of the reader.
   A write deadline that cuts a message short on a connection that stays in use breaks this. *)
Theorem c17_done_writes_delivered : forall chunks ws,
  clean_failures ws -> Forall no_nl (map w_msg ws) -> concat chunks = wire ws ->
  decode_stream bytes scan_line [] chunks = (reported_done ws, []).
Proof. exact done_writes_delivered. Qed.
Print Assumptions c17_done_writes_delivered.
Theorem c17_partial_write_refuted :
  let m1 := [123; 34; 97; 34; 58; 49; 125]%N in
  let m2 := [123; 34; 98; 34; 58; 50; 125]%N in
  let ws := [{| w_msg := m1; w_done := false; w_sent := 3 |}; {| w_msg := m2; w_done := true; w_sent := 0 |}] in
  reported_done ws = [m2] /\
  decode_stream bytes scan_line [] [wire ws] = ([[123; 34; 97] ++ m2]%N, []) /\
  let ws' := [{| w_msg := m1; w_done := false; w_sent := 0 |}; {| w_msg := m2; w_done := true; w_sent := 0 |}] in
  decode_stream bytes scan_line [] [wire ws'] = ([m2], []).
Proof. exact partial_write_then_continue_refuted. Qed.
