(* C07 — a withdrawal pays exactly what is owed, once. *)
From VP Require Import Base Nonce Store StoreProofs Pool PoolProofs BalanceProofs Conc ConcProofs Locks LocksProofs Deposit DepositProofs.
From VPgen Require Import Facts.

(* executed iff settlement is enabled, the balance (deposit + credit) meets the minimum and the
   settlement goes through *)
Theorem c07_exec_iff : forall cfg dep st w ok,
  let '(st', dep', r) := pay_withdraw cfg dep st w ok in
  (exists a, r = PPaid a) <->
  p_settle_enabled cfg = true /\ meets_min cfg (wtot dep st w) = true /\ ok = true.
Proof. exact withdraw_exec_iff. Qed.
Print Assumptions c07_exec_iff.

(* it pays exactly that balance minus the fee *)
Theorem c07_amount : forall cfg dep st w ok st' dep' a,
  pay_withdraw cfg dep st w ok = (st', dep', PPaid a) -> a = wtot dep st w - p_fee cfg.
Proof. exact withdraw_amount. Qed.

(* and leaves the wallet with nothing further to withdraw *)
Theorem c07_drained : forall cfg dep st w ok st' dep' a,
  pay_withdraw cfg dep st w ok = (st', dep', PPaid a) -> wtot dep' st' w = 0.
Proof. exact withdraw_drains. Qed.
Print Assumptions c07_drained.

(* repeating the withdrawal never pays the same earnings twice *)
Theorem c07_repeat : forall cfg dep st w ok st' dep' a ok2,
  pay_withdraw cfg dep st w ok = (st', dep', PPaid a) ->
  let '(_, _, r2) := pay_withdraw cfg dep' st' w ok2 in
  (forall a2, r2 = PPaid a2 -> a2 + p_fee cfg = 0) /\
  (forall m, p_wmin cfg = Some m -> 0 < m -> r2 = PBelowMin 0).
Proof. exact withdraw_repeat. Qed.
Print Assumptions c07_repeat.

(* if settlement fails, or the request is refused, nothing is paid and nothing changes *)
Theorem c07_fail_safe : forall cfg dep st w ok st' dep' r,
  pay_withdraw cfg dep st w ok = (st', dep', r) -> (forall a, r <> PPaid a) -> st' = st /\ dep' = dep.
Proof. exact withdraw_fail_safe. Qed.

(* cumulative: each successful withdrawal lowers what the pool owes by exactly paid + fee, so
   over any history the payments never exceed deposits plus credit accrued *)
Theorem c07_cumulative : forall cfg dep st w ok st' dep' a,
  Good st -> pay_withdraw cfg dep st w ok = (st', dep', PPaid a) ->
  total st' + dep_of dep' w = total st + dep_of dep w - (a + p_fee cfg).
Proof. exact withdraw_owed. Qed.
Print Assumptions c07_cumulative.

(* racing withdrawals (serialized by the service's mutex, their store actions interleaved with
   any other requests): the ledger loses exactly the credit each one settled *)
Theorem c07_race_ledger : forall X E st thr sch,
  Good st -> Forall served thr ->
  let c' := run_sched X E {| c_st := st; c_thr := thr |} sch in
  forallb finished (c_thr c') = true ->
  total (c_st c') = total st - zsuml (map settled_of_prog (c_thr c')).
Proof. exact concurrent_zero_sum. Qed.

Example c07_example :
  let cfg := {| p_X := 120; p_E := 900; p_price := 1; p_interval := 1; p_min := None;
                p_wmin := Some 5000; p_fee := 2500; p_settle_enabled := true |} in
  let st := fst (sstep 120 900 0 s0 (AddAcctBal 7%N 6000)) in
  let '(st1, dep1, r1) := pay_withdraw cfg [(7%N, 1000)] st 7%N true in
  let '(_, _, r2) := pay_withdraw cfg dep1 st1 7%N true in
  r1 = PPaid 4500 /\ r2 = PBelowMin 0 /\ total st1 = 0.
Proof. vm_compute. auto. Qed.

(* racing withdrawals: Withdraw takes one service-wide mutex (a plain field, locked with a
   deferred unlock before the balance is read — structural facts regenerated from
   pool/payment/service.go on every run).  For that lock — the keyed lock with a single key whose
   entry is never removed — two withdrawals are never between "balance read" and "credit
   deducted" together, for any number of racing requests and any schedule; so racing withdrawals
   behave as the repeated ones of [c07_repeat].  A lock whose entry is removed on release admits a
   third request beside the second. *)
Theorem c07_withdraw_lock_as_modelled :
  withdraw_lock_is_one_mutex = true /\ withdraw_takes_lock_first = true.
Proof. vm_compute. auto. Qed.
Theorem c07_racing_withdrawals_exclusive : forall ops t1 t2,
  holding (lrun false lst0 ops) t1 = true -> holding (lrun false lst0 ops) t2 = true -> t1 = t2.
Proof. exact keyed_lock_mutual_exclusion. Qed.
Print Assumptions c07_racing_withdrawals_exclusive.
Theorem c07_lock_entry_removal_refuted :
  holders (lrun true lst0 chain3) = [2; 3]%N /\ holders (lrun false lst0 chain3) = [2]%N.
Proof. exact deleting_variant_refuted. Qed.

(* The deposit as the service sees it in production: ContractPayment's cache in front of the
   contract (filled on a miss from the contract's pending state, refreshed by Balance events when
   a settlement is MINED, and — the repair of D29 — set when the settlement is submitted).  For every
   history of deposits, earnings, forced-settlement requests, balance reads, pool restarts,
   withdrawals (back to back ones included), minings, and of other accounts filling the cache up
   and leaving it again — under no bound (the pinned code) or any bound that drops the entry it
   cannot store — the wallet is never paid more than it put in and earned, and an immediate repeat
   of a withdrawal pays nothing; with the event-only refresh of the pinned code the repeat is paid
   the deposit again, and so it is under a bound that keeps the old entry when the cache is full. *)
Theorem c07_never_overpaid : forall cfg ops,
  dc_refresh_on_settle cfg = true -> dc_when_full cfg <> FPKeepOld -> 0 <= dc_fee cfg ->
  let s := drun cfg d0 ops in d_paid s + eff s + d_credit s <= d_in s.
Proof. exact never_overpaid. Qed.
Print Assumptions c07_never_overpaid.
Theorem c07_immediate_repeat_pays_nothing : forall cfg ops,
  dc_refresh_on_settle cfg = true -> dc_when_full cfg <> FPKeepOld -> 0 <= dc_fee cfg ->
  let s := drun cfg d0 ops in
  0 < snd (dstep cfg s DWithdraw) \/ (snd (dstep cfg s DWithdraw) = 0 /\ d_pending (fst (dstep cfg s DWithdraw)) <> d_pending s) ->
  snd (dstep cfg (fst (dstep cfg s DWithdraw)) DWithdraw) = 0.
Proof. exact repeat_pays_nothing. Qed.
Print Assumptions c07_immediate_repeat_pays_nothing.
Theorem c07_stale_deposit_cache_refuted :
  let cfg := {| dc_fee := 10; dc_min := None; dc_refresh_on_settle := false; dc_when_full := FPStore |} in
  dpaid cfg d0 [DDeposit 1000000; DEarn 10000; DWithdraw; DWithdraw; DMine; DMine] = [0; 0; 1009990; 999990; 0; 0] /\
  let cfg' := {| dc_fee := 10; dc_min := None; dc_refresh_on_settle := true; dc_when_full := FPStore |} in
  dpaid cfg' d0 [DDeposit 1000000; DEarn 10000; DWithdraw; DWithdraw; DMine; DMine] = [0; 0; 1009990; 0; 0; 0].
Proof. exact stale_cache_pays_twice. Qed.
Theorem c07_full_cache_keeping_old_entries_refuted :
  let ops := [DDeposit 1000000; DEarn 10000; DRead; DCrowd true; DWithdraw; DRead; DWithdraw; DMine; DMine] in
  let run p := dpaid {| dc_fee := 0; dc_min := None; dc_refresh_on_settle := true; dc_when_full := p |} d0 ops in
  run FPKeepOld = [0; 0; 0; 0; 1010000; 0; 1000000; 0; 0] /\
  run FPEvict = [0; 0; 0; 0; 1010000; 0; 0; 0; 0] /\
  run FPStore = [0; 0; 0; 0; 1010000; 0; 0; 0; 0].
Proof. exact full_cache_keeps_old_pays_twice. Qed.
