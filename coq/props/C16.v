(* C16 — only registered RPC names are callable, with exactly their declared parameters. *)
From Coq Require Import String Ascii.
From VP Require Import Base Dispatch DispatchProofs.
From VPgen Require Import Facts.
Open Scope string_scope.

(* a service exposes exactly prefix + lower-cased-first-letter names, restricted to the allow-list *)
Theorem c16_names : forall prefix ms allow reg name,
  register prefix ms allow = Some reg ->
  (In name (map fst reg) <->
   exists m, In m ms /\ name = prefix ++ lcfirst (gm_name m) /\ gm_args_ok m = true /\
             (allow = [] \/ In (lcfirst (gm_name m)) allow)).
Proof. exact registered_names. Qed.
Print Assumptions c16_names.

(* the pool binary serves exactly the documented calls — computed from the method sets
   (reflection) and the Register calls of pool.go / agent.go regenerated on every run *)
Definition served_by_pool : list string :=
  flat_map (fun r => let '(prefix, ms, allow) := r in
                     match register prefix ms allow with Some reg => map fst reg | None => [] end) pool_registrations.
Definition documented : list string :=
  ["vipnode_connect"; "vipnode_update"; "vipnode_peer"; "vipnode_client"; "vipnode_host"; "vipnode_ping";
   "pool_account"; "pool_addNode"; "pool_withdraw"; "pool_status"].
Theorem c16_production :
  forallb (fun n => smem n documented) served_by_pool = true /\
  forallb (fun n => smem n served_by_pool) documented = true /\
  forallb (fun r => let '(prefix, ms, allow) := r in
                    match register prefix ms allow with Some _ => true | None => false end) pool_registrations = true /\
  agent_registrations = [("vipnode_whitelist", "Whitelist")].
Proof. vm_compute. auto. Qed.
Print Assumptions c16_production.

(* unknown names get method-not-found; nothing is run *)
Theorem c16_unknown : forall reg name p, ~ In name (map fst reg) -> handle reg name p = HNotFound.
Proof. exact unknown_not_found. Qed.

(* the method runs iff the name is registered and the parameters are accepted *)
Theorem c16_invoked_iff : forall reg name p,
  handle reg name p = HInvoked <-> exists m, lookup name reg = Some m /\ parse_ok (gm_args m) p = true.
Proof. exact invoked_iff. Qed.
Print Assumptions c16_invoked_iff.

(* too many, too few or wrongly typed positional parameters: invalid-params, not run *)
Theorem c16_too_many : forall reg name m js,
  lookup name reg = Some m -> (length (gm_args m) < length js)%nat -> handle reg name (PArray js) = HInvalidParams.
Proof. exact too_many_rejected. Qed.
Theorem c16_too_few : forall reg name m js k,
  lookup name reg = Some m -> nth_error (gm_args m) (length js) = Some k -> is_ptr k = false ->
  handle reg name (PArray js) = HInvalidParams.
Proof. exact too_few_rejected. Qed.
Theorem c16_no_params : forall reg name m k,
  lookup name reg = Some m -> In k (gm_args m) -> is_ptr k = false -> handle reg name PAbsent = HInvalidParams.
Proof. exact no_params_rejected. Qed.
Theorem c16_wrong_type : forall reg name m js i k j,
  lookup name reg = Some m -> nth_error (gm_args m) i = Some k -> nth_error js i = Some j ->
  accepts k j = false -> handle reg name (PArray js) = HInvalidParams.
Proof. exact wrong_type_rejected. Qed.
Theorem c16_not_array : forall reg name m, lookup name reg = Some m -> handle reg name PNotArray = HInvalidParams.
Proof. exact not_array_rejected. Qed.
Print Assumptions c16_wrong_type.

Example c16_example :
  match register "vipnode_" methods_p ["connect"; "ping"] with
  | Some reg => handle reg "vipnode_connect" (PArray [JString; JString; JInt true false; JObject]) = HInvoked /\
                handle reg "vipnode_connect" (PArray [JString; JString; JString; JObject]) = HInvalidParams /\
                handle reg "vipnode_Connect" PAbsent = HNotFound /\ handle reg "vipnode_closeRemote" PAbsent = HNotFound /\
                handle reg "vipnode_ping" PAbsent = HInvoked
  | None => False
  end.
Proof. vm_compute. auto. Qed.
