(* C05 — a signed request is honoured at most once; nonces only move forward.
   Property theorems only; every proof is an [exact] of a lemma from VP.NonceProofs. *)
From VP Require Import Base Nonce NonceProofs.

(* accepted  <->  inside the freshness window and strictly above every nonce accepted before *)
Theorem c05_accept_iff : forall E st r,
  snd (nstep E st r) = true <-> stale E (nr_now r) (nr_n r) = false /\ hw st (nr_id r) < nr_n r.
Proof. exact nstep_accept_iff. Qed.
Print Assumptions c05_accept_iff.

(* for every history and identity the accepted nonces are strictly increasing *)
Theorem c05_increasing : forall E rs st i, incr_from (hw st i) (accepted E st rs i).
Proof. exact accepted_increasing. Qed.
Print Assumptions c05_increasing.

(* a captured request replayed later is honoured at most once *)
Theorem c05_replay_once : forall E rs st i n,
  (count_occ Z.eq_dec (accepted E st rs i) n <= 1)%nat.
Proof. exact replay_at_most_once. Qed.
Print Assumptions c05_replay_once.

(* nonces of one identity never affect another identity *)
Theorem c05_isolation : forall E rs st1 st2 i,
  hw st1 i = hw st2 i -> decisions E st1 rs i = decisions E st2 (only i rs) i.
Proof. exact isolation. Qed.
Print Assumptions c05_isolation.

(* the persistent driver (TTL entries, repaired TTL rule) takes the same decisions at every
   instant, hence inherits the four statements above; reopening is the identity on entries *)
Theorem c05_persistent_refines : forall E rs, 0 < E -> forall bst nst,
  brel E bst nst -> brun ttl_cover_nonce E bst rs = nrun E nst rs.
Proof. exact brun_eq_nrun. Qed.
Print Assumptions c05_persistent_refines.

(* the TTL rule of the pinned tree is refuted by a concrete history (replayed on the code) *)
Theorem c05_ttl_from_accept_refuted :
  brun ttl_from_accept E15 [] ttl_witness = [true; true] /\
  nrun E15 [] ttl_witness = [true; false] /\
  brun ttl_cover_nonce E15 [] ttl_witness = [true; false].
Proof. exact ttl_from_accept_refuted. Qed.
Print Assumptions c05_ttl_from_accept_refuted.

(* which TTL rules are right: ANY rule under which the stored entry outlives the nonce's freshness
   window (the entry is still visible at every instant at which the nonce is not yet stale, given
   that the database keeps expiry instants in whole seconds, rounded down) takes the model's
   decisions at every instant; the repaired rule is one; a rule that measures the remaining window
   from the nonce and rounds that DURATION up to a full second is not, and a repeat in the last
   fraction of a second of the window is accepted *)
Theorem c05_any_covering_ttl_refines : forall ttl E rs, ttl_covers ttl -> 0 < E -> forall bst nst,
  brel E bst nst -> brun ttl E bst rs = nrun E nst rs.
Proof. exact brun_eq_nrun_gen. Qed.
Print Assumptions c05_any_covering_ttl_refines.
Theorem c05_ttl_round_up_refuted :
  brun ttl_round_up E15 [] ttl_witness_round = [true; true] /\
  nrun E15 [] ttl_witness_round = [true; false] /\
  brun ttl_cover_nonce E15 [] ttl_witness_round = [true; false] /\
  ~ ttl_covers ttl_round_up.
Proof. exact ttl_round_up_refuted. Qed.

(* racing duplicates under optimistic transactions: any interleaving, at most one accepted *)
Theorem c05_race : forall n evs v, all_begin_n n evs ->
  (count_accept (occ_run {| oc_val := v; oc_ver := 0 |} [] evs) <= 1)%nat.
Proof. exact occ_duplicates_once_init. Qed.
Print Assumptions c05_race.

(* non-vacuity: a concrete history exercising accept, replay, lower nonce, stale nonce, other id *)
Example c05_example :
  nrun E15 [] [ {| nr_now := 2000000000000; nr_id := 1%N; nr_n := 1999000000000 |};
                {| nr_now := 2000000000001; nr_id := 1%N; nr_n := 1999000000000 |};
                {| nr_now := 2000000000002; nr_id := 1%N; nr_n := 1998000000000 |};
                {| nr_now := 2000000000003; nr_id := 2%N; nr_n := 1998000000000 |};
                {| nr_now := 2000000000004; nr_id := 2%N; nr_n := 1000000000000 |};
                {| nr_now := 2000000000005; nr_id := 1%N; nr_n := 1999000000001 |} ]
  = [true; false; false; true; false; true].
Proof. vm_compute. reflexivity. Qed.
