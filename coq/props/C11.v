(* C11 — peers that stop checking in are declared invalid and dropped; live ones never. *)
From VP Require Import Base Nonce Store StoreProofs PeersProofs PeersFrame.

(* exactness: the declared set is exactly the candidates (reported-and-registered, or tracked)
   whose judged timestamp (the peer's own LastSeen if reported and registered, else the tracked
   value) is not newer than now - X; the kept set is exactly the rest; nothing else changes *)
Theorem c11_exact : forall X E now st i reported blk nd,
  Inv st -> aget i (s_nodes st) = Some nd ->
  exists gone, sstep X E now st (UpdatePeers i reported blk) =
               (fst (sstep X E now st (UpdatePeers i reported blk)), RIds gone) /\
  let st' := fst (sstep X E now st (UpdatePeers i reported blk)) in
  (forall q, In q gone <-> exists ts, judged_ts st i now reported q = Some ts /\ ts <= now - X) /\
  (forall q, amem q (peers_of st' i) = true <-> exists ts, judged_ts st i now reported q = Some ts /\ now - X < ts) /\
  (forall q ts, aget q (peers_of st' i) = Some ts -> judged_ts st i now reported q = Some ts) /\
  (forall j, j <> i -> peers_of st' j = peers_of st j).
Proof. exact update_peers_exact. Qed.
Print Assumptions c11_exact.

(* a peer that keeps checking in and keeps being reported is never declared invalid:
   at every keep-alive, in every state, a reported live peer is kept *)
Theorem c11_live_never : forall X E now st i reported blk nd,
  Inv st -> aget i (s_nodes st) = Some nd -> forall q ndq,
  In q reported -> q <> i -> aget q (s_nodes st) = Some ndq -> now - X < n_seen ndq ->
  ~ In q (match snd (sstep X E now st (UpdatePeers i reported blk)) with RIds l => l | _ => [] end) /\
  amem q (peers_of (fst (sstep X E now st (UpdatePeers i reported blk))) i) = true.
Proof. exact live_peer_kept. Qed.
Print Assumptions c11_live_never.

(* ids the pool does not know are never tracked or declared *)
Theorem c11_unknown_step : forall X E now st i reported blk nd,
  Inv st -> aget i (s_nodes st) = Some nd -> forall q,
  aget q (s_nodes st) = None -> amem q (peers_of st i) = false ->
  ~ In q (match snd (sstep X E now st (UpdatePeers i reported blk)) with RIds l => l | _ => [] end) /\
  amem q (peers_of (fst (sstep X E now st (UpdatePeers i reported blk))) i) = false.
Proof. exact unknown_ignored. Qed.
Theorem c11_tracked_are_registered : forall X E ops i q,
  amem q (peers_of (srun X E s0 ops) i) = true -> registered (srun X E s0 ops) q = true.
Proof. intros X E ops. apply PeersReg_run, PeersReg_s0. Qed.
Print Assumptions c11_tracked_are_registered.

(* declared peers are forgotten, every other tracked peer stays *)
Theorem c11_partition : forall X E now st i reported blk nd,
  Inv st -> aget i (s_nodes st) = Some nd -> forall q,
  amem q (peers_of st i) = true ->
  let gone := match snd (sstep X E now st (UpdatePeers i reported blk)) with RIds l => l | _ => [] end in
  let st' := fst (sstep X E now st (UpdatePeers i reported blk)) in
  (In q gone \/ amem q (peers_of st' i) = true) /\ ~ (In q gone /\ amem q (peers_of st' i) = true).
Proof. exact tracked_partition. Qed.
Print Assumptions c11_partition.

(* duplicates and order in the report do not matter *)
Theorem c11_report_as_set : forall st i now r1 r2 q,
  (forall x, In x r1 <-> In x r2) -> judged_ts st i now r1 q = judged_ts st i now r2 q.
Proof. exact report_as_set. Qed.
Print Assumptions c11_report_as_set.

(* "every other tracked peer stays in it": between a node's own keep-alives nothing takes a peer
   out of its tracked set or puts one in — not time passing (entries may grow older than the
   window: they are judged at the node's next keep-alive, by the rule above), not the check-ins,
   registrations or re-registrations of any node, not a peer request, not the ledger *)
Theorem c11_tracked_written_by_own_keepalives_only : forall X E i ops st,
  forallb (fun no => negb (writes_peers_of i (snd no))) ops = true ->
  tracked (srun X E st ops) i = tracked st i.
Proof. exact tracked_frame_run. Qed.
Print Assumptions c11_tracked_written_by_own_keepalives_only.

(* non-vacuity: node 1 with peers 2 (keeps checking in), 3 (stops), 9 (unknown) *)
Example c11_example :
  let X := 120 in
  let nd i t := {| n_id := i; n_uri := 0; n_seen := t; n_kind := 0; n_host := true; n_payout := 0; n_block := 0 |} in
  let st := srun X 0 s0 [(0, SetNode (nd 1%N 0)); (0, SetNode (nd 2%N 0)); (0, SetNode (nd 3%N 0));
                          (10, UpdatePeers 1%N [2%N; 3%N; 9%N] 0%N); (100, UpdatePeers 2%N [] 0%N)] in
  snd (sstep X 0 130 st (UpdatePeers 1%N [2%N; 3%N; 3%N; 9%N] 0%N)) = RIds [3%N] /\
  akeys (peers_of (fst (sstep X 0 130 st (UpdatePeers 1%N [2%N; 3%N; 9%N] 0%N))) 1%N) = [2%N].
Proof. vm_compute. auto. Qed.
