(* C10 — concurrent requests are race-free, serialisable, and see immutable snapshots. *)
From Coq Require Import Permutation.
From VP Require Import Base Nonce NonceProofs Store StoreProofs Pool PoolProofs BalanceProofs Conc ConcProofs
                       SerialProofs SerialFull SoloPool Mixed Deposit DepositProofs Snapshot SnapshotProofs Locks LocksProofs.
From VPgen Require Import Facts.

(* (a) every store operation is atomic: the in-memory driver takes its mutex before touching any
   field in every method, the persistent driver runs every method as one transaction (retried on
   conflict) — structural facts regenerated from the sources on every run *)
Theorem c10_store_operations_atomic :
  forallb (fun p => snd p) lock_shape = true /\
  forallb (fun p => let '(u, v, outside) := snd p in (u + v =? 1) && (outside =? 0)) txn_shape = true.
Proof. vm_compute. auto. Qed.
Print Assumptions c10_store_operations_atomic.

(* (b) no update is lost: after any sequence of balance updates every balance is its initial
   value plus the sum of the deltas addressed to its owner, hence any interleaving of concurrent
   requests' balance updates yields the balances of every serial order *)
Theorem c10_no_lost_update : forall cfg adds st,
  (forall i d, In (i, d) adds -> registered st i = true) ->
  forall j, b_credit (node_bal (apply_adds cfg st adds) j) = b_credit (node_bal st j) + delta_sum st adds j.
Proof. exact balances_are_sums. Qed.
Theorem c10_balance_updates_commute : forall cfg st a b,
  Permutation a b -> (forall i d, In (i, d) a -> registered st i = true) ->
  forall j, b_credit (node_bal (apply_adds cfg st a) j) = b_credit (node_bal (apply_adds cfg st b) j).
Proof. exact balance_updates_commute. Qed.
Print Assumptions c10_balance_updates_commute.

(* the ledger under every interleaving of whole requests (connect, keep-alive, linking, withdrawal) *)
Theorem c10_ledger_any_schedule : forall X E st thr sch,
  Good st -> Forall served thr ->
  let c' := run_sched X E {| c_st := st; c_thr := thr |} sch in
  forallb finished (c_thr c') = true ->
  total (c_st c') = total st - zsuml (map settled_of_prog (c_thr c')).
Proof. exact concurrent_zero_sum. Qed.

(* nonce decisions under racing duplicates *)
Theorem c10_nonce_decisions : forall n evs v, all_begin_n n evs ->
  (count_accept (occ_run {| oc_val := v; oc_ver := 0 |} [] evs) <= 1)%nat.
Proof. exact occ_duplicates_once_init. Qed.

(* (c) full serialisability of keep-alives is FALSE when two keep-alives of one node overlap:
   both read the same LastSeen and both bill the span (1016 in either serial order, 2016
   interleaved).  The repaired pool serialises the updates of each node (per-node lock), which
   excludes exactly these schedules; the schedule is replayed on the real pool by the check. *)
Theorem c10_serialisable_refuted_without_node_lock :
  sx_host_credit (sched_of [0; 0; 0; 0; 0; 0; 1; 1; 1; 1; 1; 1]%nat 61) = 1016 /\
  sx_host_credit (sched_of [1; 1; 1; 1; 1; 1; 0; 0; 0; 0; 0; 0]%nat 61) = 1016 /\
  sx_host_credit (sched_of [0; 1; 0; 1; 0; 1; 0; 1; 0; 1; 0; 1]%nat 61) = 2016.
Proof. exact serialisable_refuted. Qed.
Print Assumptions c10_serialisable_refuted_without_node_lock.

(* ... and with it the positive statement: any interleaving of the store actions of the keep-alives
   of pairwise distinct nodes (any number of them, any schedule, any clock readings) that runs
   them all to completion leaves exactly the node records, peer sets, account links and balances
   of a one-at-a-time execution - each request run alone to completion - in the order in which
   the requests performed their UpdatePeers action.  (Keep-alives of the same node are kept
   apart by the per-node lock, below; connects, linking and withdrawals are covered for the
   ledger by [c10_ledger_any_schedule].) *)
Theorem c10_keepalives_serialisable : forall cfg X E st0 us sch,
  NoDup (map u_id us) -> NodeKeys st0 -> (forall u, In u us -> registered st0 (u_id u) = true) ->
  let c' := run_sched X E {| c_st := st0; c_thr := map (uprog cfg) us |} sch in
  forallb finished (c_thr c') = true ->
  exists order st_ser,
    Permutation (map fst order) (seq 0 (length us)) /\
    ser_exec X E cfg us st0 order st_ser /\
    s_nodes st_ser = s_nodes (c_st c') /\ s_peers st_ser = s_peers (c_st c') /\ s_link st_ser = s_link (c_st c') /\
    forall j, b_credit (node_bal st_ser j) = b_credit (node_bal (c_st c') j).
Proof. exact keepalives_serialisable. Qed.
Print Assumptions c10_keepalives_serialisable.
(* a keep-alive run alone completes, and is its UpdatePeers action followed by its credits *)
Theorem c10_request_alone : forall X E cfg now st u,
  NodeKeys st -> registered st (u_id u) = true ->
  exists k, let c1 := run_sched X E {| c_st := st; c_thr := [uprog cfg u] |} (repeat (0%nat, now) k) in
    forallb finished (c_thr c1) = true /\
    np_eq (c_st c1) (fst (sstep X E now st (up_op u))) /\ s_link (c_st c1) = s_link st /\
    forall j, b_credit (node_bal (c_st c1) j) = b_credit (node_bal st j) + delta_sum st (full_adds X E cfg st u now) j.
Proof. exact solo_run. Qed.
(* ... and that one-at-a-time execution is the pool model's own Update ([Pool.pool_update], the
   function the pool-level correspondence runs against the real pool on every check): a keep-alive
   program run alone ends in exactly the store state pool_update computes, so the interleaved run
   agrees with pool_update applied to the requests one after the other *)
Theorem c10_request_alone_is_pool_update : forall cfg dep connected now_s now_b st i reported blk,
  NodeKeys st ->
  exists n, fin (solo cfg now_s st (update_prog cfg i reported blk now_b) n) /\
            c_st (solo cfg now_s st (update_prog cfg i reported blk now_b) n) =
            fst (pool_update cfg dep connected now_s now_b st i reported blk).
Proof. exact solo_update_is_pool_update. Qed.
Theorem c10_keepalives_serialisable_pool : forall cfg dep connected st0 us sch,
  NoDup (map u_id us) -> NodeKeys st0 -> (forall u, In u us -> registered st0 (u_id u) = true) ->
  let c' := run_sched (p_X cfg) (p_E cfg) {| c_st := st0; c_thr := map (uprog cfg) us |} sch in
  forallb finished (c_thr c') = true ->
  exists order,
    Permutation (map fst order) (seq 0 (length us)) /\
    s_nodes (pool_run cfg dep connected st0 us order) = s_nodes (c_st c') /\
    s_peers (pool_run cfg dep connected st0 us order) = s_peers (c_st c') /\
    s_link (pool_run cfg dep connected st0 us order) = s_link (c_st c') /\
    forall j, b_credit (node_bal (pool_run cfg dep connected st0 us order) j) = b_credit (node_bal (c_st c') j).
Proof. exact keepalives_serialisable_pool. Qed.
Print Assumptions c10_keepalives_serialisable_pool.
(* ... but a keep-alive is NOT atomic with respect to a withdrawal: it credits each active peer in a
   store action of its own, and when two of the credited hosts are paid into one wallet a
   withdrawal of that wallet between the two credits settles the first only.  Ledger and payout
   are then the result of neither one-at-a-time order (nothing is lost: paid + left is the same in
   all three runs).  The full statement of C10 is false of the faithful model, and of the code: the
   same schedule is forced on the real services on every run (known finding D28). *)
Theorem c10_keepalive_withdraw_refuted :
  mx_complete mx_keepalive_first = true /\ mx_complete mx_withdraw_first = true /\ mx_complete mx_between = true /\
  mx_outcome mx_keepalive_first = (0, 2000, -2000) /\
  mx_outcome mx_withdraw_first = (2000, 0, -2000) /\
  mx_outcome mx_between = (1000, 1000, -2000).
Proof. exact keepalive_withdraw_not_serialisable. Qed.

(* ... and the per-node lock itself: the keep-alives of one node go through a lock looked up (or
   created) in a map under the pool mutex and never removed from it (structural facts regenerated
   from pool/service.go on every run); for that bookkeeping, whatever the number of overlapping
   requests and the order of their lookups, acquisitions and releases, two keep-alives of one node
   are never inside the critical section together, and a waiting one gets in once it is free.  The
   variant that removes the map entry on release lets a third request in beside the second (and
   no schedule of only two requests shows it). *)
Theorem c10_update_lock_as_modelled :
  update_lock_map_deletes = 0 /\ update_lock_lookup_shape = true /\ update_takes_lock_first = true.
Proof. vm_compute. auto. Qed.
Theorem c10_per_node_mutual_exclusion : forall ops t1 t2,
  holding (lrun false lst0 ops) t1 = true -> holding (lrun false lst0 ops) t2 = true -> t1 = t2.
Proof. exact keyed_lock_mutual_exclusion. Qed.
Print Assumptions c10_per_node_mutual_exclusion.
Theorem c10_per_node_lock_progress : forall ops t m,
  let s := lrun false lst0 ops in
  phase_of s t = TRef m -> (forall t', holding s t' = false) ->
  exists s', lstep false s (SLock t) = Some s' /\ holding s' t = true.
Proof. exact keyed_lock_progress. Qed.
Theorem c10_lock_entry_removal_refuted :
  holders (lrun true lst0 chain3) = [2; 3]%N /\ holders (lrun false lst0 chain3) = [2]%N /\
  forallb (prefixes_ok true lst0) (schedules 7) = true.
Proof. split; [apply deleting_variant_refuted|split; [apply deleting_variant_refuted|exact deleting_variant_two_requests_ok]]. Qed.

(* (d) a value handed out is a snapshot that later operations never alter (fresh-cell updates) *)
Theorem c10_snapshot_stable : forall pre k r post,
  snd (mstep Fresh (mrun Fresh ms0 pre) (MGet k)) = Some r ->
  read (ms_heap (mrun Fresh (mrun Fresh ms0 pre) post)) r = read (ms_heap (mrun Fresh ms0 pre)) r.
Proof. exact handed_out_value_stable. Qed.
Theorem c10_inplace_breaks :
  let s1 := mrun InPlace ms0 [MAdd 1 14] in
  snd (mstep InPlace s1 (MGet 1)) = Some 0%nat /\
  read (ms_heap s1) 0%nat = 14 /\ read (ms_heap (mrun InPlace s1 [MAdd 1 7])) 0%nat = 21 /\
  read (ms_heap (mrun Fresh (mrun Fresh ms0 [MAdd 1 14]) [MAdd 1 7])) 0%nat = 14.
Proof. exact inplace_breaks. Qed.
Print Assumptions c10_snapshot_stable.

(* what a request reads of a wallet's on-chain deposit while other requests settle it (the
   production balance store: ContractPayment's cache in front of the contract, Deposit.v): in
   every reachable state of every history of deposits, earnings, withdrawals, minings, restarts
   and of other accounts crowding the cache (with no bound, or a bound that drops what it cannot
   store) a read answers the contract's own pending view — never a settlement that has not been
   submitted, never an older value than one that has.  The real store is compared with this
   model in C07's contract cases, and read during a failing submission in `contract-settle-in-flight`. *)
Theorem c10_deposit_reads_coherent : forall cfg ops v c,
  dc_refresh_on_settle cfg = true -> dc_when_full cfg <> FPKeepOld -> 0 <= dc_fee cfg ->
  Deposit.read cfg (drun cfg d0 ops) = (Some v, c) -> v = eff (drun cfg d0 ops).
Proof. exact reads_are_coherent. Qed.
Print Assumptions c10_deposit_reads_coherent.
