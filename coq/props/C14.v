(* C14 — each RPC call gets its own reply, in both directions, under any interleaving. *)
From VP Require Import Base Routing RoutingProofs.

(* every call that returns a payload returns one that Serve routed for that call's own id: never
   another call's reply — for every trace (any number of concurrent callers, any delivery order,
   replies arriving before the caller starts waiting, cancellations at any point, any pending
   limit, either discard rule) *)
Theorem c14_own_reply : forall f lim d t c p,
  aget c (r_calls (rrun f lim d rst0 t)) = Some (PDone (CPayload p)) ->
  In (c, p) (r_delivered (rrun f lim d rst0 t)).
Proof. exact own_reply. Qed.
Print Assumptions c14_own_reply.

(* no reply is lost: in every reachable state a reply for a waiting call reaches that call's own
   channel and the call returns it (repaired discard rule, every pending limit) *)
Theorem c14_progress : forall lim d t c g p,
  let s := rrun true lim d rst0 t in
  aget c (r_calls s) = Some (PWaiting g) -> buf_get c g (r_bufs s) = None ->
  exists s1 s2, rstep true lim d s (LDeliver c p) = Some s1 /\
                rstep true lim d s1 (LWake c) = Some s2 /\
                aget c (r_calls s2) = Some (PDone (CPayload p)).
Proof. exact reply_reaches_waiter. Qed.
Print Assumptions c14_progress.

(* a reply that overtakes its caller — routed after the call registered but before it reached
   receive() — is kept through whatever else happens on the connection (other callers beyond the
   pending limit, late replies of cancelled calls, orphans, the discard rule) and is the reply
   the call returns *)
Theorem c14_early_reply : forall lim d t c g p t2,
  let s := rrun true lim d rst0 t in
  aget c (r_calls s) = Some (PWaiting g) -> buf_get c g (r_bufs s) = None ->
  Forall (not_own c) t2 ->
  exists s1 s3, rstep true lim d s (LDeliver c p) = Some s1 /\
    rstep true lim d (rrun true lim d s1 t2) (LWake c) = Some s3 /\
    aget c (r_calls s3) = Some (PDone (CPayload p)).
Proof. exact early_reply_delivered. Qed.
Print Assumptions c14_early_reply.

(* the pinned discard rule is refuted: with more calls in flight than the pending limit a waiting
   call's channel is discarded and its reply is never delivered *)
Theorem c14_discard_refuted :
  rstep false 2 1 (rrun false 2 1 rst0 discard_trace) (LWake 1) = None /\
  aget 1%N (r_calls (rrun false 2 1 rst0 discard_trace)) = Some (PWaiting 0) /\
  exists s', rstep true 2 1 (rrun true 2 1 rst0 discard_trace) (LWake 1) = Some s' /\
             aget 1%N (r_calls s') = Some (PDone (CPayload 77%N)).
Proof. exact discard_refuted. Qed.

(* the reading loop is blocked only by a second unconsumed reply for one id; handlers run in
   their own goroutines and never block it (each request read spawns exactly one handler whose
   context service is the receiving Remote — observed by the correspondence) *)
Theorem c14_no_deadlock : forall f lim d s i p,
  rstep f lim d s (LDeliver i p) = None -> exists g q, buf_get i g (r_bufs s) = Some q.
Proof. exact serve_blocks_only_on_duplicate. Qed.

(* a waiting call can always be cancelled and then returns the context's error; a late reply is
   never handed to a different call *)
Theorem c14_cancel : forall f lim d s c g,
  aget c (r_calls s) = Some (PWaiting g) ->
  exists s', rstep f lim d s (LCancel c) = Some s' /\ aget c (r_calls s') = Some (PDone CCtxErr).
Proof. exact cancel_enabled. Qed.
Theorem c14_late_reply : forall lim d t c p,
  let s := rrun true lim d rst0 t in
  aget c (r_calls s) = Some (PDone CCtxErr) ->
  forall s', rstep true lim d s (LDeliver c p) = Some s' ->
  r_calls s' = r_calls s /\ forall c', rstep true lim d s' (LWake c') = None \/ c' <> c.
Proof. exact late_reply_harmless. Qed.
Print Assumptions c14_late_reply.

(* The same property with reply channels as objects and Serve's two steps kept apart (it looks a
   reply's channel up under the lock and sends after releasing it; Recycle.v).  As long as a
   channel is never handed to a second call (the code as it is), however calls, replies, Serve's
   sends, wake-ups and cancellations interleave, a call that returns a payload returns one that
   Serve read under the call's own request id.  Handing a finished call's channel to the next
   call breaks it, whether the channel is emptied first or not. *)
From VP Require Import Recycle RecycleProofs.
Theorem c14_own_reply_channels : forall evs s c p,
  rcrun PNoRecycle rc0 evs = Some s -> aget c (rc_done s) = Some (RPayload p) -> In (c, p) (rc_read s).
Proof. exact own_reply_channels. Qed.
Print Assumptions c14_own_reply_channels.
Theorem c14_channel_recycling_refuted :
  let h1 := [VCall 1; VLookup 1 100; VSend; VCancel 1; VCall 2; VWake 2]%N in
  (exists s, rcrun PRecycleAsIs rc0 h1 = Some s /\ aget 2%N (rc_done s) = Some (RPayload 100%N) /\ ~ In (2, 100)%N (rc_read s)) /\
  rcrun PNoRecycle rc0 h1 = None /\
  let h2 := [VCall 1; VLookup 1 100; VCancel 1; VCall 2; VSend; VWake 2]%N in
  (exists s, rcrun PRecycleDrained rc0 h2 = Some s /\ aget 2%N (rc_done s) = Some (RPayload 100%N) /\ ~ In (2, 100)%N (rc_read s)) /\
  rcrun PNoRecycle rc0 h2 = None.
Proof. exact recycling_refuted. Qed.
