(* C08 — peer requests return only eligible hosts that already whitelisted the requester. *)
From VP Require Import Base Nonce Store StoreProofs PeersFrame ReqHosts ReqHostsProofs Agent Compose.
From VPgen Require Import Facts.

Theorem c08_eligible : forall X now st reg maxh self num kind chosen outs,
  store_answer_ok X now st kind (effective_num maxh num + Z.of_nat (S (length (akeys (peers_of st self))))) chosen ->
  forall h, In h (rh_reply (request_hosts st reg maxh self num chosen outs)) ->
  (exists nd, In nd (map snd (s_nodes st)) /\ n_id nd = h /\ n_host nd = true /\
              (kind = 0%N \/ n_kind nd = kind) /\ now - X < n_seen nd) /\
  h <> self /\ ~ In h (akeys (peers_of st self)) /\ amem h reg = true /\ outcome_of outs h = Ack /\
  In h (rh_calls (request_hosts st reg maxh self num chosen outs)).
Proof. intros. eapply reply_eligible; eauto. Qed.
Print Assumptions c08_eligible.

Theorem c08_left_out : forall X now st reg maxh self num kind chosen outs,
  store_answer_ok X now st kind (effective_num maxh num + Z.of_nat (S (length (akeys (peers_of st self))))) chosen ->
  forall h, outcome_of outs h <> Ack -> ~ In h (rh_reply (request_hosts st reg maxh self num chosen outs)).
Proof. intros. eapply failed_left_out; eauto. Qed.

Theorem c08_count : forall st reg maxh self num chosen outs,
  let out := request_hosts st reg maxh self num chosen outs in
  (Z.of_nat (length (rh_reply out)) <= Z.max 0 num) /\
  (0 < maxh -> Z.of_nat (length (rh_reply out)) <= maxh) /\
  (num <= 0 -> rh_reply out = [] /\ rh_calls out = [] /\ rh_err_of out = RhNone).
Proof. intros. apply reply_count. Qed.
Print Assumptions c08_count.

Theorem c08_error_iff : forall st reg maxh self num chosen outs,
  0 < effective_num maxh num -> registered st self = true ->
  (rh_err_of (request_hosts st reg maxh self num chosen outs) = RhNone <->
   rh_reply (request_hosts st reg maxh self num chosen outs) <> []).
Proof. intros. now apply error_iff_empty. Qed.

Theorem c08_exact : forall X now st reg maxh self num kind chosen outs,
  store_answer_ok X now st kind (effective_num maxh num + Z.of_nat (S (length (akeys (peers_of st self))))) chosen ->
  0 < effective_num maxh num -> registered st self = true ->
  let supply := map n_id (filter (eligible_host X now kind) (map snd (s_nodes st))) in
  (forall h, In h supply -> h <> self /\ ~ In h (akeys (peers_of st self)) /\ amem h reg = true /\ outcome_of outs h = Ack) ->
  length (rh_reply (request_hosts st reg maxh self num chosen outs)) =
  Nat.min (Z.to_nat (effective_num maxh num)) (length supply).
Proof. intros. eapply reply_exact_supply; eauto. Qed.
Print Assumptions c08_exact.

(* the documented default of three when a legacy client request names no count *)
Theorem c08_legacy_default : forall requested,
  client_num c_defaultRequestNumHosts requested = if 0 <? requested then requested else 3.
Proof. reflexivity. Qed.

Example c08_example :
  let nd i := {| n_id := i; n_uri := 0; n_seen := 100; n_kind := 1; n_host := true; n_payout := 0; n_block := 0 |} in
  let st := srun 120 900 s0 [(100, SetNode (nd 1%N)); (100, SetNode (nd 2%N)); (100, SetNode (nd 3%N));
              (100, SetNode {| n_id := 9; n_uri := 0; n_seen := 100; n_kind := 1; n_host := false; n_payout := 0; n_block := 0 |})] in
  let out := request_hosts st [(1, 10); (2, 20)]%N 0 9%N 2 [1; 2; 3]%N [(2%N, Failed)] in
  rh_calls out = [1; 2]%N /\ rh_reply out = [1%N] /\ rh_err_of out = RhNone.
Proof. vm_compute. auto. Qed.

(* the agent's keep-alive round put together with the pool's answer to its peer request (the
   end-to-end cases run exactly this composition on the real Agent and the real pool): every host
   the client's node is told to connect to was sent the whitelist instruction for that client and
   acknowledged it, is connected, is not the client and not already its peer; and the node is told
   to connect to no more hosts than it was short of *)
Theorem c08_round_connects_only_whitelisted :
  forall (cfg : acfg) (locals active invalid : list pref) (drop_errors : bool)
    (st : sstate) (reg : registry) (maxh : Z) (self : N) (chosen : list N) (outs : amap outcome) (uri_of : N -> N),
  let need := ac_target cfg - Z.of_nat (length active) in
  let out := request_hosts st reg maxh self need chosen outs in
  let calls := fst (update_round cfg true locals (UpdateOk active invalid) drop_errors (peer_reply_of uri_of out) None) in
  (forall u, In (CConnect u) calls ->
     exists h, u = uri_of h /\ In h (rh_calls out) /\ is_ack (outcome_of outs h) = true /\
               h <> self /\ amem h reg = true /\ In h chosen /\ memb h (akeys (peers_of st self)) = false) /\
  (Z.of_nat (length (filter (fun c => match c with CConnect _ => true | _ => false end) calls)) <= Z.max 0 need).
Proof. exact round_connects_only_whitelisted. Qed.
Print Assumptions c08_round_connects_only_whitelisted.

(* "not already its peer" is about the peers recorded at the requester's last keep-alive: the
   list a peer request skips (what NodePeers answers) is the same list until the requester's next
   keep-alive, however old its entries have grown and whoever has checked in since *)
Theorem c08_skip_list_is_last_keepalives : forall X E i ops st now,
  forallb (fun no => negb (writes_peers_of i (snd no))) ops = true ->
  registered (srun X E st ops) i = true ->
  snd (sstep X E now (srun X E st ops) (NodePeers i)) = RNodes (nodes_of (srun X E st ops) (tracked st i)).
Proof.
  intros X E i ops st now H Hr. rewrite node_peers_lists_tracked by exact Hr.
  now rewrite (tracked_frame_run X E i ops st H).
Qed.
Print Assumptions c08_skip_list_is_last_keepalives.
Example c08_aged_entry_still_skipped :
  let nd k h := {| n_id := k; n_uri := 0; n_seen := 0; n_kind := 1; n_host := h; n_payout := 0; n_block := 0 |} in
  let ops := [(0, SetNode (nd 1%N true)); (0, SetNode (nd 2%N false)); (100, UpdatePeers 2 [1%N] 0);
              (101, UpdatePeers 1 [] 0); (101, Advance 130)] in
  tracked (srun 120 900 s0 ops) 2 = [1%N].
Proof. exact aged_entry_still_listed. Qed.
