(* C19 — a host is advertised only under its own identity and a dialable address. *)
From VP Require Import Base NodeURI NodeURIProofs.

(* the stored address always carries the authenticated node id *)
Theorem c19_identity : forall ov node_id dh id h p, normalize ov node_id dh = NOk id h p -> id = node_id.
Proof. exact identity_bound. Qed.
Theorem c19_foreign_id_refused : forall user oh op node_id dh,
  user <> [] -> user <> node_id -> normalize (Parsed user oh op) node_id dh = NErr.
Proof. exact foreign_id_refused. Qed.
Print Assumptions c19_identity.

(* host: the one supplied unless missing/unspecified, else the connection's source host;
   port: the one supplied, else 30303 *)
Theorem c19_address : forall user oh op node_id dh id h p,
  normalize (Parsed user oh op) node_id dh = NOk id h p ->
  h = (match oh with [] => dh | _ => if unspecified oh then dh else oh end) /\
  p = (match op with [] => default_port | _ => op end).
Proof. exact address_rule. Qed.
Theorem c19_address_default : forall node_id dh id h p,
  normalize NoOverride node_id dh = NOk id h p -> h = dh /\ p = default_port.
Proof. exact address_default. Qed.
Print Assumptions c19_address.

(* the advertised host:port parses back to exactly that host and port: IPv4, IPv6, names *)
Theorem c19_roundtrip : forall h p,
  valid_host h -> valid_port p -> split_host_port (join_host_port h p) = Some (h, p).
Proof. exact split_join_roundtrip. Qed.
Print Assumptions c19_roundtrip.

(* registrations whose address cannot be determined are refused rather than stored *)
Theorem c19_refuse : forall ov node_id dh id h p, normalize ov node_id dh = NOk id h p -> h <> [].
Proof. exact stored_host_nonempty. Qed.
Theorem c19_no_address : forall user op node_id,
  normalize NoOverride node_id [] = NErr /\ normalize (Parsed user [] op) node_id [] = NErr /\
  normalize (Parsed user [58; 58]%N op) node_id [] = NErr.
Proof. exact no_address_refused. Qed.

(* joining host and port with a bare ':' (the pinned tree) does not round-trip for IPv6 *)
Theorem c19_naive_join_refuted :
  split_host_port (naive_join [58; 58; 49]%N default_port) = None /\
  split_host_port (join_host_port [58; 58; 49]%N default_port) = Some ([58; 58; 49]%N, default_port).
Proof. exact naive_join_refuted. Qed.
Print Assumptions c19_refuse.
