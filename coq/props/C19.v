(* C19 — a host is advertised only under its own identity and a dialable address. *)
From VP Require Import Base NodeURI NodeURIProofs.

(* the stored address always carries the authenticated node id *)
Theorem c19_identity : forall ov node_id dh id h p, normalize ov node_id dh = NOk id h p -> id = node_id.
Proof. exact identity_bound. Qed.
Theorem c19_foreign_id_refused : forall user oh op node_id dh,
  user <> [] -> user <> node_id -> normalize (Parsed user oh op) node_id dh = NErr.
Proof. exact foreign_id_refused. Qed.
Print Assumptions c19_identity.

(* host: the one supplied unless missing/unspecified, else the connection's source host;
   port: the one supplied, else 30303 *)
Theorem c19_address : forall user oh op node_id dh id h p,
  normalize (Parsed user oh op) node_id dh = NOk id h p ->
  h = (match oh with [] => dh | _ => if unspecified oh then dh else oh end) /\
  p = (match op with [] => default_port | _ => op end).
Proof. exact address_rule. Qed.
Theorem c19_address_default : forall node_id dh id h p,
  normalize NoOverride node_id dh = NOk id h p -> h = dh /\ p = default_port.
Proof. exact address_default. Qed.
Print Assumptions c19_address.

(* the advertised host:port parses back to exactly that host and port: IPv4, IPv6, names *)
Theorem c19_roundtrip : forall h p,
  valid_host h -> valid_port p -> split_host_port (join_host_port h p) = Some (h, p).
Proof. exact split_join_roundtrip. Qed.
Print Assumptions c19_roundtrip.

(* registrations whose address cannot be determined are refused rather than stored *)
Theorem c19_refuse : forall ov node_id dh id h p, normalize ov node_id dh = NOk id h p -> h <> [].
Proof. exact stored_host_nonempty. Qed.
Theorem c19_no_address : forall user op node_id,
  normalize NoOverride node_id [] = NErr /\ normalize (Parsed user [] op) node_id [] = NErr /\
  normalize (Parsed user [58; 58]%N op) node_id [] = NErr.
Proof. exact no_address_refused. Qed.

(* joining host and port with a bare ':' (the pinned tree) does not round-trip for IPv6 *)
Theorem c19_naive_join_refuted :
  split_host_port (naive_join [58; 58; 49]%N default_port) = None /\
  split_host_port (join_host_port [58; 58; 49]%N default_port) = Some ([58; 58; 49]%N, default_port).
Proof. exact naive_join_refuted. Qed.
Print Assumptions c19_refuse.

(* "... and hands to clients": what a client is handed for a host comes out of the store's answer
   to the candidate query.  In every reachable state of the store, every entry of that answer is
   the record the store holds for the id the entry carries — the record written at that node's
   own registration, with the address normalised there (c19_identity, c19_address) — and never a
   record assembled from another node's fields.  Both drivers are compared with this model on
   every ActiveHosts call of every history (C12), and the entries handed to clients are read back
   against each node's own registration in the `handed-out` populations. *)
From VP Require Import Nonce Store StoreProofs HandedOut.
Theorem c19_handed_out_is_own_record : forall X E ops now kind limit elig lim nd,
  let st := srun X E s0 ops in
  snd (sstep X E now st (ActiveHosts kind limit)) = RHosts elig lim -> In nd elig ->
  aget (n_id nd) (s_nodes st) = Some nd /\ eligible_host X now kind nd = true.
Proof. exact hosts_handed_out_are_own_records. Qed.
Print Assumptions c19_handed_out_is_own_record.
