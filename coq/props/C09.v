(* C09 — the pool talks to a host exactly while that host has a live connection. *)
From VP Require Import Base ReqHosts ReqHostsProofs.
From VPgen Require Import Facts.

Theorem c09_iff : forall evs h,
  wf_from {| sp_latest := []; sp_closed := [] |} evs ->
  aget h (reg_run evs) = instructable (spec_run evs) h.
Proof. exact registry_iff. Qed.
Print Assumptions c09_iff.

Theorem c09_no_dead : forall r c h, NoDup (akeys r) -> aget h (reg_step r (RClose c)) <> Some c.
Proof. exact no_dead_connection. Qed.

Theorem c09_close_old_keeps_new : forall r c c2 h,
  NoDup (akeys r) -> aget h r = Some c2 -> c2 <> c -> aget h (reg_step r (RClose c)) = Some c2.
Proof. exact close_other_keeps. Qed.
Print Assumptions c09_close_old_keeps_new.

(* one entry per distinct host: NumRemotes counts hosts with a live registered connection *)
Theorem c09_count : forall evs, NoDup (akeys (reg_run evs)).
Proof. exact registry_count. Qed.

Theorem c09_pinned_variant_refuted :
  let evs := [RRegister 1 10; RRegister 1 20; RClose 10]%N in
  aget 1%N (r2_hosts (fold_left reg2_step evs {| r2_hosts := []; r2_lookup := [] |})) = None /\
  aget 1%N (reg_run evs) = Some 20%N /\ instructable (spec_run evs) 1%N = Some 20%N.
Proof. exact registry_pinned_refuted. Qed.
Print Assumptions c09_pinned_variant_refuted.

(* the registry model is told about every closed connection (RClose): in the shipped server the
   WebSocket handler runs the disconnect hook (pool.CloseRemote) once remote.Serve() has returned,
   whatever it returned - no return statement lies between the two (structural fact regenerated
   from server.go on every run; exercised through the built binary by the check) *)
Theorem c09_close_is_always_reported : ws_disconnect_hook_always = true.
Proof. vm_compute. reflexivity. Qed.
