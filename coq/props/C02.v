(* C02 — a light client pays elapsed time x price per active peer; hosts never pay. *)
From VP Require Import Base Nonce Store StoreProofs Pool PoolProofs BalanceProofs.

(* a billing keep-alive performs exactly these balance movements: +unit for every active peer,
   -(number of peers x unit) for the client; unit = floor(elapsed x price / interval) in unbounded
   integers (elapsed saturates like time.Duration, nothing else is 64-bit) *)
Theorem c02_amounts : forall cfg dep now_b st nd peers,
  billable cfg nd now_b = true -> registered st (n_id nd) = true -> all_registered st peers ->
  let c := interval_credit cfg now_b (n_seen nd) in
  fst (on_update cfg dep now_b st nd peers) =
  apply_adds cfg st (map (fun q => (q, c)) peers ++ [(n_id nd, - (Z.of_nat (length peers) * c))]).
Proof. exact on_update_trace. Qed.
Print Assumptions c02_amounts.

Theorem c02_unit_charge : forall cfg now_b last,
  interval_credit cfg now_b last = sat64 (now_b - last) * p_price cfg / p_interval cfg.
Proof. reflexivity. Qed.

(* a full node's keep-alive, a zero unit charge or a misconfigured price moves nothing *)
Theorem c02_noops : forall cfg dep now_b st nd peers,
  billable cfg nd now_b = false -> fst (on_update cfg dep now_b st nd peers) = st.
Proof. exact on_update_noop. Qed.
Print Assumptions c02_noops.

(* a failed update is all-or-nothing *)
Theorem c02_all_or_nothing : forall cfg dep now_b st nd peers,
  registered st (n_id nd) = true -> all_registered st peers ->
  fst (on_update cfg dep now_b st nd peers) = st \/
  fst (on_update cfg dep now_b st nd peers) =
  apply_adds cfg st (map (fun q => (q, interval_credit cfg now_b (n_seen nd))) peers ++
                     [(n_id nd, - (Z.of_nat (length peers) * interval_credit cfg now_b (n_seen nd)))]).
Proof. exact on_update_all_or_nothing. Qed.
Print Assumptions c02_all_or_nothing.

(* the total charged does not depend on how often the client updates, beyond one smallest unit
   per update per peer (and slicing never increases it) *)
Theorem c02_slicing : forall p I es,
  0 < I -> es <> [] ->
  0 <= charge p I (zsum es) - zsum (map (charge p I) es) <= Z.of_nat (length es) - 1.
Proof. exact slicing_bound. Qed.
Print Assumptions c02_slicing.

(* which time is billed: the span, plus the gap between the two clock reads of each keep-alive *)
Theorem c02_billed_time : forall clocks last,
  clocks <> [] -> billed last clocks = (final_nowb last clocks - last) + overlap clocks.
Proof. intros. now apply billed_decomposition. Qed.
Theorem c02_no_double_charge_partial : forall clocks last,
  clocks <> [] -> (forall s b, In (s, b) clocks -> s = b) -> billed last clocks = final_nowb last clocks - last.
Proof. exact no_double_charge_partial. Qed.
(* the full statement "no stretch of time is ever charged twice" is false of the code, which
   reads the clock twice per keep-alive (store first, balance manager later): known finding D19 *)
Theorem c02_double_charge_refuted :
  billed 0 [(50, 55); (100, 105); (120, 120)] = 130 /\ final_nowb 0 [(50, 55); (100, 105); (120, 120)] - 0 = 120.
Proof. exact double_charge_refuted. Qed.
Print Assumptions c02_billed_time.

(* peer ids come from the reported peer infos without ever slicing out of bounds *)
Theorem c02_enode_id : forall id enode, (136 < length enode)%nat -> length (enode_id id enode) = 128%nat.
Proof. exact enode_id_in_bounds. Qed.

Example c02_example :
  let cfg := {| p_X := 120; p_E := 900; p_price := 18446744073709551617; p_interval := 60000000000;
                p_min := None; p_wmin := None; p_fee := 0; p_settle_enabled := true |} in
  interval_credit cfg 300000000000 0 = 92233720368547758085 /\ charge 1000 60 119 = 1983.
Proof. vm_compute. auto. Qed.
