(* C04 — every signed endpoint acts only on requests signed by the identity they name. *)
From VP Require Import Base Nonce NonceProofs Auth AuthProofs.

(* the signature check passes only for a signature made by the key of the named identity over
   exactly this method name, identity, nonce and parameters *)
Theorem c04_binding : forall pub wallet_style s method id nonce params,
  sig_ok pub wallet_style s method id nonce params = true <->
  exists k, s = Sig k {| pl_wallet_style := wallet_style id; pl_method := method; pl_id := id;
                         pl_nonce := nonce; pl_params := params |} /\ pub k = id.
Proof. exact sig_ok_binding. Qed.
Print Assumptions c04_binding.

(* changing any one of method, identity, nonce or parameters gets the request refused *)
Theorem c04_alteration : forall pub wallet_style k style m id n ps m' id' n' ps',
  (m, id, n, ps) <> (m', id', n', ps') ->
  sig_ok pub wallet_style
         (Sig k {| pl_wallet_style := style; pl_method := m; pl_id := id; pl_nonce := n; pl_params := ps |})
         m' id' n' ps' = false.
Proof. exact altered_component_refused. Qed.
Theorem c04_other_key : forall pub wallet_style k p method id nonce params,
  pub k <> id -> sig_ok pub wallet_style (Sig k p) method id nonce params = false.
Proof. exact other_key_refused. Qed.
Theorem c04_garbage : forall pub wallet_style method id nonce params,
  sig_ok pub wallet_style Garbage method id nonce params = false.
Proof. exact garbage_refused. Qed.
Print Assumptions c04_alteration.

(* a correctly signed fresh request is always accepted by the verification step *)
Theorem c04_accepts : forall pub wallet_style E nonces r k,
  rq_sig r = Sig k {| pl_wallet_style := wallet_style (rq_id r); pl_method := rq_method r; pl_id := rq_id r;
                      pl_nonce := rq_nonce r; pl_params := rq_params r |} ->
  pub k = rq_id r -> stale E (rq_now r) (rq_nonce r) = false -> hw nonces (rq_id r) < rq_nonce r ->
  snd (verify_req pub wallet_style E nonces r) = true.
Proof. exact accepts_fresh. Qed.
Print Assumptions c04_accepts.

(* every guarded endpoint (any state, any body): an effect implies a valid signature, in the
   current or — for vipnode_update — the deprecated parameter format *)
Theorem c04_all_endpoints : forall pub wallet_style (S C : Type) (body : S -> sreq -> S * list C) E st r,
  endpoint_step pub wallet_style body E st r <> (st, [], false) ->
  exists k params, (params = rq_params r \/ (params = rq_params_old r /\ rq_params_old r <> 0%N)) /\
    rq_sig r = Sig k {| pl_wallet_style := wallet_style (rq_id r); pl_method := rq_method r; pl_id := rq_id r;
                        pl_nonce := rq_nonce r; pl_params := params |} /\ pub k = rq_id r.
Proof. exact effect_implies_signed. Qed.
Print Assumptions c04_all_endpoints.

(* byte level: the signed string determines the method name and the argument array; the two
   signing styles never produce the same string *)
Theorem c04_assemble_injective : forall m1 m2 j1 j2,
  no_bracket m1 -> no_bracket m2 -> hd_error j1 = Some lbracket -> hd_error j2 = Some lbracket ->
  assemble m1 j1 = assemble m2 j2 -> m1 = m2 /\ j1 = j2.
Proof. exact assemble_injective. Qed.
Theorem c04_styles_never_collide : forall m j declen msg a rest,
  m = a :: rest -> a <> 25%N -> assemble m j <> eip191 msg declen.
Proof. exact styles_never_collide. Qed.
Print Assumptions c04_assemble_injective.
