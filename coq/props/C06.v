(* C06 — a refused request changes nothing. *)
From VP Require Import Base Nonce NonceProofs Auth AuthProofs.

(* whatever the reason of the refusal, the nonce table is unchanged *)
Theorem c06_nonce_kept : forall pub wallet_style E nonces r,
  snd (verify_req pub wallet_style E nonces r) = false -> fst (verify_req pub wallet_style E nonces r) = nonces.
Proof. exact refusal_keeps_nonces. Qed.
Print Assumptions c06_nonce_kept.

(* a refused request leaves no trace: pool state, nonce table, calls to hosts — for every
   endpoint body *)
Theorem c06_no_trace : forall pub wallet_style (S C : Type) (body : S -> sreq -> S * list C) E st r,
  snd (verify_req pub wallet_style E (snd st) r) = false ->
  endpoint_step pub wallet_style body E st r = (st, [], false).
Proof. exact endpoint_refused_no_trace. Qed.
Print Assumptions c06_no_trace.

(* so the legitimate owner's next request with a smaller-but-fresh nonce is still accepted *)
Theorem c06_owner_not_blocked : forall pub wallet_style E nonces forged own k,
  snd (verify_req pub wallet_style E nonces forged) = false ->
  rq_id own = rq_id forged -> rq_nonce own <= rq_nonce forged ->
  rq_sig own = Sig k {| pl_wallet_style := wallet_style (rq_id own); pl_method := rq_method own; pl_id := rq_id own;
                        pl_nonce := rq_nonce own; pl_params := rq_params own |} ->
  pub k = rq_id own -> stale E (rq_now own) (rq_nonce own) = false -> hw nonces (rq_id own) < rq_nonce own ->
  snd (verify_req pub wallet_style E (fst (verify_req pub wallet_style E nonces forged)) own) = true.
Proof. exact owner_not_blocked. Qed.
Print Assumptions c06_owner_not_blocked.

(* the helper that saves the nonce before checking the signature does not have this property *)
Theorem c06_order_matters :
  snd (verify_nonce_first ex_pub ex_style 900 (fst (verify_nonce_first ex_pub ex_style 900 [] ex_forged)) ex_own) = false /\
  snd (verify_req ex_pub ex_style 900 (fst (verify_req ex_pub ex_style 900 [] ex_forged)) ex_own) = true.
Proof. exact order_matters. Qed.
